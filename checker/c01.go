// c01.go: C01 — benchmark records survive a write/read round trip (writer side).
package main

import (
	"fmt"
	"go/ast"
	"go/constant"
	"go/types"
	"regexp"
	"strings"

	"golang.org/x/tools/go/ssa"
)

func init() { register("C01", checkC01) }

func checkC01(c *Ctx) {
	c.Rule("C01/R1", "writer step table (DESIGN Appendix A1): per known key — reader holds it and should not: a deletion line and no assignment; should hold and reader lacks it or value differs: an assignment; assignment only for file keys; the model entry afterwards says (file flag, value) of the result. Per new key — assignment iff file key; model gains the entry. Extracted from the SSA of one loop iteration under every valuation of (present, equal, model-is-file, result-is-file).")
	c.Rule("C01/R2", "the configuration diff is entered whenever the key counts differ, a key is missing from the model, a value differs or the file flag differs")
	c.Rule("C01/R3", "each measurement is printed from one family — (Value,Unit) or (OrigValue,OrigUnit) of the same element — and from the original family exactly when OrigUnit is non-empty")
	c.Rule("C01/R4", "format verbs in the writer: float64 with %v/%g and no precision, integers with %d/%v, text with %s/%v")
	c.Rule("C01/R5", "unit metadata is written as 'Unit <unit as written> <key>=<value>'")
	c.Rule("C01/R6", "in the known-key walk a step that shrinks the key order revisits the same slot, so no key is skipped")

	c.Rule("C01/R7", "the writer's running model owns its bytes: no method of Writer stores into the Writer a slice, map or pointer that is rooted in its argument (values are copied), so a caller reusing its Result cannot change what the writer believes it has printed")
	c.Rule("C01/R10", "what the writer prints back is what was written: the reader records the value and unit as written (OrigValue/OrigUnit) exactly when Tidy changed the unit — decided by comparing the unit strings, never the values (0, ±Inf and NaN compare equal/unequal regardless of the unit); same rule as C04/R1")
	c.Rule("C01/R9", "the parser that reads the writer's %v floats back is the correctly rounding one: the conversion functions carried over from strconv agree with strconv region by region (same rule as C03/R5; shortest-decimal output round-trips only through a correctly rounding parser)")
	c.Rule("C01/R8", "SetConfig marks the key internal: every write of a configuration value in SetConfig is to an entry whose File flag is set false on the same path (the entry comes from ensureConfig(key, false) or File is stored false)")

	c.Rule("C01/R11", "what the writer may emit as a key line the reader takes as one: nothing the reader's key recogniser tests before decoding the first character rejects a line beginning with a lower-case letter (same rule as C02/R12)")
	c.Rule("C01/R15", "records of several inputs written through one writer read back once each (same rule as C02/R4): the reader is reset, not replaced, between inputs — its unit-metadata table survives, so repeated metadata is recognised")
	c.Rule("C01/R17", "every record handed to the writer is written: the function Write passes a unit-metadata record to writes into the buffer on every path (no table of what was 'already written' decides otherwise)")
	c.Rule("C01/R16", "every float the writer prints is read back by the full parser when the integer fast path does not apply (same rule as C03/R2): the fast path accepts digits only and otherwise hands the whole text on — NaN included")
	c.Rule("C01/R14", "infinities and NaN read back as written (same rule as C03/R8): the recogniser of the special spellings accepts the writer's +Inf, -Inf and NaN and maps each to the value of that sign")
	c.Rule("C01/R13", "the filter command forwards every kind of record the writer can write: for each kind in Writer.Write's type switch (the syntax error apart) a path leads from the fetch to Writer.Write that agrees with the command's own type tests for that kind")
	c.Rule("C01/R12", "one writer per output stream: the filter command creates its benchfmt.Writer outside every loop (a writer only knows the configuration it has itself written; a fresh one in mid-stream drops the 'key:' deletion lines, so keys of an earlier input leak into later results on read-back)")
	p := mustLoad(c, loadOpts{}, "./benchfmt", "./cmd/benchfilter", "./benchfmt/internal/bytesconv")
	c01Writer(c, p)
	c01Verbs(c, p)
	c01Owns(c, p)
	c01SetConfig(c, p)
	c03Port(c, "C01/R9")
	c04R1(c, p, "C01/R10")
	c02KeyStart(c, p, "C01/R11")
	c01OneWriter(c, p)
	c01Forwarded(c, p)
	c.Under("C03/R8", "C01/R14", func() { c03Special(c, p) })
	c.Under("C02/R4", "C01/R15", func() { c02Reset(c, p) })
	c03FastFloat(c, p, "C01/R16")
	c01EveryRecordWritten(c, p)
}

func c01Owns(c *Ctx, p *Prog) {
	const R = "C01/R7"
	var fns []*ssa.Function
	for _, fn := range p.Funcs("benchfmt") {
		if fn.Signature.Recv() != nil && recvName(fn.Signature.Recv().Type()) == "Writer" {
			fns = append(fns, fn)
		}
	}
	viol, n := retained(fns, 0)
	for i, v := range viol {
		c.Bad(R, fmt.Sprintf("%s:retains#%d", fnName(v.Fn), i+1), p.pos(v.Instr.Pos()), v.String()+": the writer's model of what a reader of its output has seen now shares storage with the caller's Result; a Reader reuses those bytes for the next line, so later changes to the key are mis-detected")
	}
	if len(viol) == 0 {
		c.OK(R, "writer:owns-model", "", fmt.Sprintf("%d stores into the Writer in %d methods keep only copies, constants or the Writer's own storage", n, len(fns)))
	}
	c.Floor(R, "stores into the Writer's state", n, 5)
}

func c01SetConfig(c *Ctx, p *Prog) {
	const R = "C01/R8"
	fn := p.Method("benchfmt", "Result", "SetConfig")
	valueF, fileF := p.Field("benchfmt", "Config", "Value"), p.Field("benchfmt", "Config", "File")
	if fn == nil || valueF == nil || fileF == nil {
		c.Undecided(R, "anchor:SetConfig", "", "Result.SetConfig or Config.Value/File not found")
		return
	}
	n := 0
	eachInstr(fn, func(b *ssa.BasicBlock, in ssa.Instruction) {
		st, ok := in.(*ssa.Store)
		if !ok {
			return
		}
		f, base := fieldOfAddr(st.Addr)
		if f != valueF {
			return
		}
		n++
		site := p.pos(st.Pos())
		okInternal := false
		// the entry comes from ensureConfig(key, false)
		if call, ok := base.(*ssa.Call); ok {
			if co := calleeObj(&call.Call); co != nil && objIs(co, bfPkg, "Result", "ensureConfig") {
				args := callArgs(&call.Call)
				if k, ok := args[len(args)-1].(*ssa.Const); ok && k.Value != nil && k.Value.String() == "false" {
					okInternal = true
				}
			}
		}
		// or File is stored false through the same entry in a block that dominates this store or that it dominates
		eachInstr(fn, func(b2 *ssa.BasicBlock, in2 ssa.Instruction) {
			st2, ok := in2.(*ssa.Store)
			if !ok {
				return
			}
			f2, base2 := fieldOfAddr(st2.Addr)
			if f2 != fileF || !sameValue(base, base2) {
				return
			}
			if k, ok := st2.Val.(*ssa.Const); ok && k.Value != nil && k.Value.String() == "false" && (b2.Dominates(b) || b.Dominates(b2)) {
				okInternal = true
			}
		})
		c.Check(okInternal, R, fmt.Sprintf("SetConfig:value-store#%d", n), site, "the entry written is marked internal", "SetConfig writes a value into an entry without marking it internal: overriding a key that came from the file leaves File=true, so the writer prints it as file configuration and it comes back as file configuration when read")
	})
	c.Floor(R, "value stores in SetConfig", n, 1)
	// ensureConfig stores its file argument on every path that returns an entry
	ens := p.Method("benchfmt", "Result", "ensureConfig")
	if ens == nil {
		c.Undecided(R, "anchor:ensureConfig", "", "not found")
		return
	}
	fileParam := ens.Params[len(ens.Params)-1]
	for i, b := range ens.Blocks {
		ret, ok := b.Instrs[len(b.Instrs)-1].(*ssa.Return)
		if !ok {
			continue
		}
		rv := retVal(ret, 0)
		found := false
		eachInstr(ens, func(b2 *ssa.BasicBlock, in2 ssa.Instruction) {
			if !b2.Dominates(b) {
				return
			}
			switch x := in2.(type) {
			case *ssa.Store:
				if f2, base2 := fieldOfAddr(x.Addr); f2 == fileF && sameValue(base2, rv) && x.Val == fileParam {
					found = true
				}
				// whole-element construction Config{key, nil, file} stored or appended
				if al, _ := allocRootOfAddr(x.Addr); al != nil {
					if f2, _ := fieldOfAddr(x.Addr); f2 == fileF && x.Val == fileParam {
						found = true
					}
				}
			}
		})
		c.Check(found, R, fmt.Sprintf("ensureConfig:return#%d", i), p.pos(ret.Pos()), "the returned entry's File is set from the argument", "ensureConfig returns an entry without setting its File flag from the argument on this path: a reused slot keeps the previous key's flag")
	}
}

const bfPkg = modPath + "/benchfmt"

type c01env struct {
	c                            *Ctx
	p                            *Prog
	fileConfigF, orderF          *types.Var
	cfgFileF, cfgValueF, cfgKeyF *types.Var
	resConfigF                   *types.Var
}

func (ev *c01env) interp() *e6Interp {
	return &e6Interp{PureCall: func(f *types.Func) bool {
		return objIs(f, bfPkg, "Result", "ConfigIndex") || objIs(f, "bytes", "", "Equal") || objIs(f, "bytes", "", "Compare")
	}, Inline: func(f *ssa.Function) bool {
		// a comparison moved into a predicate of the package (sameConfig(a, b)): evaluated in place
		if isPurePredicate(f, bfPkg) {
			return true
		}
		// line-writing helpers of the writer: loop-free methods of Writer that only produce output
		if f.Pkg == nil || f.Pkg.Pkg.Path() != bfPkg || f.Signature.Recv() == nil || recvName(f.Signature.Recv().Type()) != "Writer" || len(naturalLoops(f)) > 0 || len(f.Blocks) > 3 {
			return false
		}
		onlyOutput := true
		eachInstr(f, func(_ *ssa.BasicBlock, in ssa.Instruction) {
			switch x := in.(type) {
			case *ssa.MapUpdate, *ssa.Store:
				onlyOutput = false
			case ssa.CallInstruction:
				if sc := x.Common().StaticCallee(); sc != nil && sc.Pkg == f.Pkg {
					onlyOutput = false
				}
			}
		})
		return onlyOutput
	}}
}

// outputLines: the configuration lines an outcome writes, by their skeleton. Output made with Fprintf, WriteString,
// Write and WriteByte is concatenated with every non-constant piece replaced by '%'; each complete line is then a
// deletion ("%:"), an assignment ("%: %") or unrecognised.
func outputLines(as []e6Action) (del, set, unk int, skeleton string) {
	var sb strings.Builder
	for _, a := range as {
		if a.Kind != "call" || a.Callee == nil {
			continue
		}
		switch {
		case objIs(a.Callee, "fmt", "", "Fprintf") && len(a.Args) >= 2:
			f := a.Args[1]
			if !f.isConst() || f.Const == nil || f.Const.Kind() != constant.String {
				sb.WriteString("\x00")
				continue
			}
			sb.WriteString(verbRe.ReplaceAllString(constant.StringVal(f.Const), "%"))
		case a.Callee.Pkg() != nil && a.Callee.Pkg().Path() == "bytes" && (a.Callee.Name() == "WriteString" || a.Callee.Name() == "Write") && len(a.Args) == 2,
			objIs(a.Callee, "io", "", "WriteString") && len(a.Args) == 2:
			x := a.Args[1]
			if x.isConst() && x.Const != nil && x.Const.Kind() == constant.String {
				sb.WriteString(constant.StringVal(x.Const))
			} else {
				sb.WriteString("%")
			}
		case a.Callee.Pkg() != nil && a.Callee.Pkg().Path() == "bytes" && (a.Callee.Name() == "WriteByte" || a.Callee.Name() == "WriteRune") && len(a.Args) == 2:
			x := a.Args[1]
			if x.isConst() && x.Const != nil {
				if v, ok := constant.Int64Val(x.Const); ok {
					sb.WriteRune(rune(v))
					continue
				}
			}
			sb.WriteString("%")
		}
	}
	skeleton = sb.String()
	rest := skeleton
	for rest != "" {
		i := strings.IndexByte(rest, '\n')
		if i < 0 {
			unk++
			break
		}
		switch rest[:i+1] {
		case "%:\n":
			del++
		case "%: %\n":
			set++
		case "\n":
			// a blank line separates blocks
		default:
			unk++
		}
		rest = rest[i+1:]
	}
	return
}

// classify an atom symbol into one of the table's predicates.
func (ev *c01env) atomKind(s *Sym) string {
	switch {
	case s.Op == "extract" && s.Idx == 1 && s.CallTo(bfPkg, "Result", "ConfigIndex") != nil:
		return "present"
	case s.CallTo("bytes", "", "Equal") != nil:
		return "eq"
	case s.Op == "extract" && s.Idx == 1 && s.Args[0].Op == "lookup" && s.Args[0].Args[0].MentionsField(ev.fileConfigF):
		return "known"
	case s.Op == "field" && s.Obj == ev.cfgFileF && symMentionsLookupOf(s, ev.fileConfigF):
		return "hf"
	case s.IsFieldLoad(ev.cfgFileF) && s.MentionsField(ev.resConfigF):
		return "cf"
	case s.Op == "field" && s.Obj == ev.cfgFileF: // range copy of res.Config element
		return "cf"
	case s.Op == "binop" && s.Args[0].Op == "call" && s.Args[0].Name == "len" && s.Args[1].Op == "call" && s.Args[1].Name == "len":
		return "lencmp"
	}
	return ""
}

func symMentionsLookupOf(s *Sym, mapField *types.Var) bool {
	found := false
	s.Walk(func(x *Sym) {
		if x.Op == "lookup" && x.Args[0].MentionsField(mapField) {
			found = true
		}
	})
	return found
}

// fprintfKind classifies an Fprintf action by its constant format: "DEL" (one verb then ':' newline), "SET" (verb ': ' verb), "".
var verbRe = regexp.MustCompile(`%[-+# 0]*[0-9]*(\.[0-9]+)?[a-zA-Z]`)

func fprintfKind(a e6Action) (string, string) {
	if a.Callee == nil || !objIs(a.Callee, "fmt", "", "Fprintf") || len(a.Args) < 2 {
		return "", ""
	}
	f := a.Args[1]
	if !f.isConst() || f.Const == nil || f.Const.Kind() != constant.String {
		return "?", ""
	}
	fs := constant.StringVal(f.Const)
	n := len(verbRe.FindAllString(fs, -1))
	sk := verbRe.ReplaceAllString(fs, "%")
	switch {
	case n == 1 && sk == "%:\n":
		return "DEL", fs
	case n == 2 && sk == "%: %\n":
		return "SET", fs
	}
	return "?", fs
}

func c01Writer(c *Ctx, p *Prog) {
	ev := &c01env{c: c, p: p,
		fileConfigF: p.Field("benchfmt", "Writer", "fileConfig"), orderF: p.Field("benchfmt", "Writer", "order"),
		cfgFileF: p.Field("benchfmt", "Config", "File"), cfgValueF: p.Field("benchfmt", "Config", "Value"), cfgKeyF: p.Field("benchfmt", "Config", "Key"),
		resConfigF: p.Field("benchfmt", "Result", "Config")}
	if ev.fileConfigF == nil || ev.cfgFileF == nil || ev.cfgValueF == nil || ev.resConfigF == nil {
		c.Undecided("C01/R1", "anchor:Writer.fileConfig/Config fields", "", "the writer's model field or benchfmt.Config fields were renamed; rule needs re-anchoring")
		return
	}
	// The diff function(s): functions in benchfmt that update or delete from Writer.fileConfig.
	var diffFns []*ssa.Function
	for _, fn := range p.Funcs("benchfmt") {
		upd := false
		eachInstr(fn, func(_ *ssa.BasicBlock, in ssa.Instruction) {
			switch x := in.(type) {
			case *ssa.MapUpdate:
				if f, _ := loadOfField(x.Map); f == ev.fileConfigF {
					upd = true
				}
			case *ssa.Call:
				if b, ok := x.Call.Value.(*ssa.Builtin); ok && b.Name() == "delete" {
					if f, _ := loadOfField(x.Call.Args[0]); f == ev.fileConfigF {
						upd = true
					}
				}
			}
		})
		if upd {
			diffFns = append(diffFns, fn)
		}
	}
	c.Floor("C01/R1", "functions updating the writer's configuration model", len(diffFns), 1)
	nKnown, nNew := 0, 0
	for _, fn := range diffFns {
		for _, lp := range naturalLoops(fn) {
			kind := ""
			for b := range lp.Blocks {
				for _, in := range b.Instrs {
					switch x := in.(type) {
					case *ssa.Call:
						if objIs(calleeObj(&x.Call), bfPkg, "Result", "ConfigIndex") {
							kind = "known"
						}
					case *ssa.MapUpdate:
						if f, _ := loadOfField(x.Map); f == ev.fileConfigF && kind == "" {
							kind = "new"
						}
					}
				}
			}
			switch kind {
			case "known":
				nKnown++
				ev.knownKeyLoop(fn, lp)
			case "new":
				nNew++
				ev.newKeyLoop(fn, lp)
			}
		}
	}
	c.Floor("C01/R1", "known-key walks", nKnown, 1)
	c.Floor("C01/R1", "new-key walks", nNew, 1)

	// R2: callers of the diff functions.
	nTrig := 0
	isDiff := map[*ssa.Function]bool{}
	for _, d := range diffFns {
		isDiff[d] = true
	}
	for _, fn := range p.Funcs("benchfmt") {
		// (a part of the diff that calls another part of it is not a trigger)
		if isDiff[fn] {
			continue
		}
		for _, d := range diffFns {
			if fn == d {
				continue
			}
			calls := false
			eachInstr(fn, func(_ *ssa.BasicBlock, in ssa.Instruction) {
				if ci, ok := in.(ssa.CallInstruction); ok && ci.Common().StaticCallee() == d {
					calls = true
				}
			})
			if calls {
				nTrig++
				ev.trigger(fn, d)
			}
		}
	}
	c.Floor("C01/R2", "callers of the configuration diff", nTrig, 1)

	// R3: measurement printing.
	ev.measurements()
}

func loopBodyStart(lp *loopInfo) *ssa.BasicBlock {
	h := lp.Header
	if ifi, ok := h.Instrs[len(h.Instrs)-1].(*ssa.If); ok {
		_ = ifi
		for _, s := range h.Succs {
			if lp.Blocks[s] && s != h {
				return s
			}
		}
	}
	return nil
}

func (ev *c01env) knownKeyLoop(fn *ssa.Function, lp *loopInfo) {
	const R = "C01/R1"
	c, p := ev.c, ev.p
	start := loopBodyStart(lp)
	site := p.pos(instrPos(lp.Header.Instrs[len(lp.Header.Instrs)-1]))
	key := fnName(fn) + ":known-key step"
	if start == nil {
		c.Undecided(R, key, site, "loop shape not recognised")
		return
	}
	stop := iterStop(lp, start)
	outs, why := e6Enumerate(ev.interp, start, lp.Header, stop, 512)
	if why != "" {
		c.Undecided(R, key, site, "cannot extract the step table: "+why)
		return
	}
	nCases := 0
	for _, o := range outs {
		// partial valuation of the four predicates
		part := map[string]*bool{}
		unknownAtoms := []string{}
		for _, k := range o.AtomKeys() {
			v := o.Assign[k]
			_ = v
			kind := ev.atomKind(o.AtomSyms[k])
			if kind == "" {
				unknownAtoms = append(unknownAtoms, k)
				continue
			}
			vv := v
			part[kind] = &vv
		}
		if len(unknownAtoms) > 0 {
			c.Undecided(R, key+":atoms", site, "the step consults conditions outside the table's predicates: "+strings.Join(unknownAtoms, "; "))
			return
		}
		// actions
		del, set, unk, _ := outputLines(o.Actions)
		var modelDel bool
		var modelUpd *Sym
		for _, a := range o.Actions {
			switch a.Kind {
			case "mapdelete":
				if a.Args[0].MentionsField(ev.fileConfigF) {
					modelDel = true
				}
			case "mapupdate":
				if a.Args[0].MentionsField(ev.fileConfigF) {
					modelUpd = a.Args[2]
				}
			}
		}
		if unk > 0 {
			c.Undecided(R, key+":format", site, "a configuration line is printed with an unrecognised format")
			return
		}
		// enumerate completions
		for mask := 0; mask < 16; mask++ {
			val := map[string]bool{"present": mask&1 != 0, "eq": mask&2 != 0, "hf": mask&4 != 0, "cf": mask&8 != 0}
			consistent := true
			for k, pv := range part {
				if val[k] != *pv {
					consistent = false
				}
			}
			if !consistent {
				continue
			}
			present, eq, hf, cf := val["present"], val["eq"], val["hf"], val["cf"]
			if !present && (eq || cf) {
				continue // canonical representative for absent keys
			}
			nCases++
			caseKey := fmt.Sprintf("%s[present=%v eq=%v modelFile=%v resultFile=%v]", key, present, eq, hf, cf)
			should := present && cf
			var errs []string
			if hf && !should && del == 0 {
				errs = append(errs, "the reader of the output still holds the key as file configuration, but no deletion line is written")
			}
			if hf && !should && set > 0 {
				errs = append(errs, "an assignment is written for a key the reader must drop")
			}
			if should && (!hf || !eq) && set == 0 {
				errs = append(errs, "the key must be (re)assigned in the output but no assignment line is written")
			}
			if should && del > 0 {
				errs = append(errs, "a deletion line is written for a key the reader must keep")
			}
			if !should && set > 0 {
				errs = append(errs, "an assignment line is written for a non-file (tool-internal) or absent key")
			}
			// model afterwards
			if !present {
				if !modelDel {
					errs = append(errs, "the key is gone from the result but stays in the writer's model")
				}
			} else {
				if modelDel {
					errs = append(errs, "the key is present but is dropped from the writer's model")
				}
				fileAfter, fileKnown := hf, true
				valueTaken := eq
				if modelUpd != nil {
					fs := fieldOfSym(modelUpd, "File", ev.cfgFileF, types.Typ[types.Bool])
					switch ev.atomKind(fs) {
					case "cf":
						fileAfter = cf
					case "hf":
						fileAfter = hf
					default:
						if b, ok := fs.boolConst(); ok {
							fileAfter = b
						} else {
							fileKnown = false
						}
					}
					vs := fieldOfSym(modelUpd, "Value", ev.cfgValueF, nil)
					if vs.MentionsField(ev.resConfigF) || eq {
						valueTaken = true
					}
				}
				if fileKnown && fileAfter != cf {
					errs = append(errs, "afterwards the writer's model records the wrong file/internal flag for the key")
				}
				if !valueTaken {
					errs = append(errs, "the value differs but the writer's model keeps the old value")
				}
			}
			if len(errs) > 0 {
				c.Bad(R, caseKey, site, strings.Join(errs, "; "), "valuation: "+o.AssignStr(), "actions: "+actionsStr(o.Actions))
			} else {
				c.OK(R, caseKey, site, fmt.Sprintf("deletions=%d assignments=%d", del, set))
			}
		}
		// R6: a step that shrinks order revisits the slot.
		if o.Term == "exit" && o.Exit == lp.Header {
			shrinks := false
			for _, a := range o.Actions {
				if a.Kind == "store" && a.Args[0].Op == "fieldaddr" && a.Args[0].Obj == ev.orderF {
					shrinks = true
				}
			}
			if shrinks {
				okAll := true
				found := false
				for _, in := range lp.Header.Instrs {
					phi, ok := in.(*ssa.Phi)
					if !ok || !isInteger(phi.Type()) {
						continue
					}
					for i, pr := range lp.Header.Preds {
						if pr == o.ExitFrom {
							found = true
							nv := o.Val(phi.Edges[i])
							cur := o.Val(phi)
							if nv.String() != cur.String() {
								okAll = false
							}
						}
					}
				}
				k6 := fnName(fn) + ":shrink-revisits-slot"
				if !found {
					c.Undecided("C01/R6", k6, site, "no integer loop variable found for the known-key walk")
				} else {
					c.Check(okAll, "C01/R6", k6, site, "after removing a key from the order the walk continues at the same index",
						"after removing a key from the order the walk moves on, skipping the key that slid into the freed slot")
				}
			}
		}
	}
	c.Floor(R, "known-key step cases", nCases, 6)
}

func actionsStr(as []e6Action) string {
	var out []string
	for _, a := range as {
		switch a.Kind {
		case "call":
			if k, f := fprintfKind(a); k != "" {
				out = append(out, fmt.Sprintf("Fprintf(%q)", f))
			} else if a.Callee != nil {
				out = append(out, a.Callee.Name())
			}
		case "mapupdate", "mapdelete":
			out = append(out, a.Kind)
		}
	}
	return strings.Join(out, ", ")
}

func (ev *c01env) newKeyLoop(fn *ssa.Function, lp *loopInfo) {
	const R = "C01/R1"
	c, p := ev.c, ev.p
	start := loopBodyStart(lp)
	site := p.pos(instrPos(lp.Header.Instrs[len(lp.Header.Instrs)-1]))
	key := fnName(fn) + ":new-key step"
	if start == nil {
		c.Undecided(R, key, site, "loop shape not recognised")
		return
	}
	stop := iterStop(lp, start)
	outs, why := e6Enumerate(ev.interp, start, lp.Header, stop, 256)
	if why != "" {
		c.Undecided(R, key, site, "cannot extract the step table: "+why)
		return
	}
	n := 0
	earlyExit := false
	for _, o := range outs {
		part := map[string]*bool{}
		for _, k := range o.AtomKeys() {
			v := o.Assign[k]
			_ = v
			kind := ev.atomKind(o.AtomSyms[k])
			if kind == "" {
				// a condition that is not about this key: harmless if the walk goes on to the next entry either way
				// (the actions are judged below), a defect if it ends the walk
				if !(o.Term == "exit" && o.Exit == lp.Header) {
					c.Bad(R, key+":early-exit", site, "the pass over the result's configuration can stop on a condition that is not about the current key ("+truncate(k, 120)+"): when a result both drops and adds keys, keys after the stop are never written (or written one result late) and never reach the reader of the output")
					earlyExit = true
				}
				continue
			}
			vv := v
			part[kind] = &vv
		}
		if earlyExit {
			continue
		}
		del, set, unk, _ := outputLines(o.Actions)
		if unk > 0 {
			c.Undecided(R, key+":format", site, "a configuration line is printed with an unrecognised format")
			return
		}
		var modelUpd *Sym
		for _, a := range o.Actions {
			switch a.Kind {
			case "mapupdate":
				if a.Args[0].MentionsField(ev.fileConfigF) {
					modelUpd = a.Args[2]
				}
			}
		}
		for mask := 0; mask < 4; mask++ {
			val := map[string]bool{"known": mask&1 != 0, "cf": mask&2 != 0}
			consistent := true
			for k, pv := range part {
				if v, ok := val[k]; ok && v != *pv {
					consistent = false
				}
			}
			if !consistent {
				continue
			}
			known, cf := val["known"], val["cf"]
			n++
			caseKey := fmt.Sprintf("%s[known=%v resultFile=%v]", key, known, cf)
			var errs []string
			if known {
				if set+del > 0 || modelUpd != nil {
					errs = append(errs, "a key already in the model is printed or re-inserted by the new-key pass")
				}
			} else {
				if cf && set == 0 {
					errs = append(errs, "a new file key is not written")
				}
				if !cf && set > 0 {
					errs = append(errs, "a new tool-internal key is written as file configuration")
				}
				if del > 0 {
					errs = append(errs, "a deletion line is written for a new key")
				}
				if modelUpd == nil {
					errs = append(errs, "a new key is not entered into the writer's model")
				} else {
					fs := fieldOfSym(modelUpd, "File", ev.cfgFileF, types.Typ[types.Bool])
					if ev.atomKind(fs) != "cf" {
						if b, ok := fs.boolConst(); !ok || b != cf {
							errs = append(errs, "the model records the wrong file/internal flag for a new key")
						}
					}
				}
			}
			if len(errs) > 0 {
				c.Bad(R, caseKey, site, strings.Join(errs, "; "), "valuation: "+o.AssignStr(), "actions: "+actionsStr(o.Actions))
			} else {
				c.OK(R, caseKey, site, fmt.Sprintf("assignments=%d", set))
			}
		}
	}
	c.Floor(R, "new-key step cases", n, 4)
}

// trigger: C01/R2.
func (ev *c01env) trigger(fn, diff *ssa.Function) {
	const R = "C01/R2"
	c, p := ev.c, ev.p
	callsDiff := func(o *e6Outcome) bool {
		for _, a := range o.Actions {
			if a.Kind == "call" && a.Callee != nil && a.Callee == diff.Object() {
				return true
			}
		}
		return false
	}
	// the decision may live in a predicate of the package: "if w.changed(res) { diff }". Then the diff is entered exactly
	// when the predicate returns true, and the predicate is what has to be analysed.
	var pred *ssa.Function
	eachInstr(fn, func(b *ssa.BasicBlock, in ssa.Instruction) {
		ci, ok := in.(ssa.CallInstruction)
		if !ok || ci.Common().StaticCallee() != diff {
			return
		}
		for _, f := range factsAt(b) {
			if call, ok := f.Cond.(*ssa.Call); ok && f.True {
				if g := call.Call.StaticCallee(); g != nil && g.Pkg == fn.Pkg && g.Blocks != nil && g.Signature.Results().Len() == 1 && isBoolean(g.Signature.Results().At(0).Type()) {
					pred = g
				}
			}
		}
	})
	if pred != nil {
		// every call of the diff in fn must be under the predicate alone
		fn = pred
		callsDiff = func(o *e6Outcome) bool {
			return o.Term == "return" && len(o.Results) == 1 && o.Results[0].isConst() && o.Results[0].Const != nil && o.Results[0].Const.Kind() == constant.Bool && constant.BoolVal(o.Results[0].Const)
		}
	}
	site := p.pos(fn.Pos())
	loops := naturalLoops(fn)
	// (a) entry region up to the first loop header / return
	stop := map[*ssa.BasicBlock]bool{}
	for _, lp := range loops {
		stop[lp.Header] = true
	}
	outs, why := e6Enumerate(ev.interp, fn.Blocks[0], nil, stop, 256)
	key := fnName(fn) + ":trigger"
	if why != "" {
		c.Undecided(R, key, site, "cannot evaluate the entry region: "+why)
		return
	}
	lenChecked := false
	for _, o := range outs {
		for _, k := range o.AtomKeys() {
			v := o.Assign[k]
			_ = v
			if ev.atomKind(o.AtomSyms[k]) == "lencmp" {
				s := o.AtomSyms[k]
				if !(s.MentionsField(ev.fileConfigF) && s.MentionsField(ev.resConfigF)) {
					continue
				}
				// s is (len == len); differing lengths => v false
				if !v {
					lenChecked = true
					c.Check(callsDiff(o), R, key+"[key counts differ]", site, "differing key counts enter the diff", "key counts differ but the diff is not entered")
				}
			}
		}
	}
	if !lenChecked {
		// Without a count comparison, deletions (a model key missing from the result) go unnoticed unless every model key is walked.
		c.Bad(R, key+"[key counts differ]", site, "the trigger never compares the number of keys in the model and in the result: a result that merely drops a key would not enter the diff")
	}
	// (b) the per-key loop
	found := false
	for _, lp := range loops {
		hasLookup := false
		for b := range lp.Blocks {
			for _, in := range b.Instrs {
				if lk, ok := in.(*ssa.Lookup); ok {
					if f, _ := loadOfField(lk.X); f == ev.fileConfigF {
						hasLookup = true
					}
				}
			}
		}
		if !hasLookup {
			continue
		}
		found = true
		start := loopBodyStart(lp)
		st := iterStop(lp, start)
		outs, why := e6Enumerate(ev.interp, start, lp.Header, st, 256)
		if why != "" {
			c.Undecided(R, key+":per-key", site, "cannot evaluate the per-key test: "+why)
			return
		}
		for _, o := range outs {
			part := map[string]*bool{}
			for _, k := range o.AtomKeys() {
				v := o.Assign[k]
				_ = v
				kind := ev.atomKind(o.AtomSyms[k])
				if kind == "" {
					c.Undecided(R, key+":per-key:atoms", site, "condition outside the table's predicates: "+k)
					return
				}
				vv := v
				part[kind] = &vv
			}
			for mask := 0; mask < 16; mask++ {
				val := map[string]bool{"known": mask&1 != 0, "eq": mask&2 != 0, "hf": mask&4 != 0, "cf": mask&8 != 0}
				ok := true
				for k, pv := range part {
					if v, has := val[k]; has && v != *pv {
						ok = false
					}
				}
				if !ok {
					continue
				}
				known, eq, hf, cf := val["known"], val["eq"], val["hf"], val["cf"]
				if !known && (eq || hf) {
					continue
				}
				differs := !known || !eq || hf != cf
				ck := fmt.Sprintf("%s[known=%v eq=%v modelFile=%v resultFile=%v]", key, known, eq, hf, cf)
				if differs {
					c.Check(callsDiff(o), R, ck, site, "a differing key enters the diff", "this key differs from the writer's model but the diff is not entered, so the change is never written")
				} else {
					c.OK(R, ck, site, "unchanged key")
				}
			}
		}
	}
	if !found {
		c.Undecided(R, key+":per-key", site, "no per-key comparison against the model found in the caller of the diff")
	}
}

// measurements: C01/R3.
func (ev *c01env) measurements() {
	const R = "C01/R3"
	c, p := ev.c, ev.p
	vF := p.Field("benchfmt", "Value", "Value")
	uF := p.Field("benchfmt", "Value", "Unit")
	ovF := p.Field("benchfmt", "Value", "OrigValue")
	ouF := p.Field("benchfmt", "Value", "OrigUnit")
	valuesF := p.Field("benchfmt", "Result", "Values")
	n := 0
	for _, fn := range p.Funcs("benchfmt") {
		if fn.Signature.Recv() == nil || recvName(fn.Signature.Recv().Type()) != "Writer" {
			continue
		}
		for _, lp := range naturalLoops(fn) {
			// loops that print Value fields
			prints := false
			for b := range lp.Blocks {
				for _, in := range b.Instrs {
					if cc, ok := callIs(in, "fmt", "", "Fprintf"); ok && cc != nil {
						prints = true
					}
				}
			}
			if !prints {
				continue
			}
			start := loopBodyStart(lp)
			if start == nil {
				continue
			}
			st := iterStop(lp, start)
			outs, why := e6Enumerate(ev.interp, start, lp.Header, st, 64)
			key := fnName(fn) + ":measurement"
			site := p.pos(fn.Pos())
			if why != "" {
				c.Undecided(R, key, site, why)
				continue
			}
			for _, o := range outs {
				var origEmpty *bool
				for _, k := range o.AtomKeys() {
					v := o.Assign[k]
					_ = v
					s := o.AtomSyms[k]
					if s.Op == "binop" && (s.Args[0].IsFieldLoad(ouF) || s.Args[1].IsFieldLoad(ouF) || symIsField(s.Args[0], ouF) || symIsField(s.Args[1], ouF)) {
						vv := v // (OrigUnit == "") truth
						origEmpty = &vv
					}
				}
				for _, a := range o.Actions {
					if a.Kind != "call" || a.Callee == nil || !objIs(a.Callee, "fmt", "", "Fprintf") {
						continue
					}
					args := o.VarArgs(a)
					var fams []string
					for _, s := range args {
						switch {
						case symIsField(s, vF) || symIsField(s, uF):
							fams = append(fams, "tidied")
						case symIsField(s, ovF) || symIsField(s, ouF):
							fams = append(fams, "orig")
						}
					}
					if len(fams) == 0 {
						continue
					}
					n++
					mixed := false
					for _, f := range fams {
						if f != fams[0] {
							mixed = true
						}
					}
					ck := fmt.Sprintf("%s[OrigUnit empty=%s]", key, boolPtrStr(origEmpty))
					var numF, unitF bool
					for _, s := range args {
						if symIsField(s, vF) || symIsField(s, ovF) {
							numF = true
						}
						if symIsField(s, uF) || symIsField(s, ouF) {
							unitF = true
						}
					}
					switch {
					case mixed:
						c.Bad(R, ck, site, "a measurement is printed with the number of one family and the unit of the other")
					case !numF || !unitF:
						c.Bad(R, ck, site, "a measurement is printed without both its number and its unit")
					case origEmpty == nil:
						c.Bad(R, ck, site, "the choice between written and tidied pair does not depend on whether an original unit was recorded")
					case *origEmpty && fams[0] != "tidied":
						c.Bad(R, ck, site, "no original pair recorded, yet OrigValue/OrigUnit (zero values) are printed")
					case !*origEmpty && fams[0] != "orig":
						c.Bad(R, ck, site, "an original pair was recorded, yet the rescaled pair is printed: the output does not reproduce the input's value and unit")
					default:
						c.OK(R, ck, site, "prints the "+fams[0]+" pair")
					}
				}
			}
		}
	}
	_ = valuesF
	c.Floor(R, "measurement print sites", n, 2)
}

func boolPtrStr(b *bool) string {
	if b == nil {
		return "?"
	}
	return fmt.Sprint(*b)
}

func symIsField(s *Sym, f *types.Var) bool {
	if s == nil {
		return false
	}
	if s.Op == "iface" {
		s = s.Args[0]
	}
	return s.IsFieldLoad(f) || (s.Op == "field" && s.Obj == f)
}

// c01Verbs: C01/R4 and R5 on the AST of Writer's methods.
func c01Verbs(c *Ctx, p *Prog) {
	pk := p.Pkg("benchfmt")
	info := pk.TypesInfo
	n := 0
	nUnit := 0
	for _, file := range pk.Syntax {
		for _, d := range file.Decls {
			fd, ok := d.(*ast.FuncDecl)
			if !ok || fd.Recv == nil || fd.Body == nil {
				continue
			}
			rt := info.TypeOf(fd.Recv.List[0].Type)
			if recvName(rt) != "Writer" {
				continue
			}
			ast.Inspect(fd.Body, func(nd ast.Node) bool {
				call, ok := nd.(*ast.CallExpr)
				if !ok {
					return true
				}
				se, ok := call.Fun.(*ast.SelectorExpr)
				if !ok {
					return true
				}
				fo, ok := info.Uses[se.Sel].(*types.Func)
				if !ok || fo.Pkg() == nil || fo.Pkg().Path() != "fmt" || !strings.HasPrefix(fo.Name(), "Fprint") {
					return true
				}
				if fo.Name() != "Fprintf" || len(call.Args) < 2 {
					return true
				}
				tv := info.Types[call.Args[1]]
				if tv.Value == nil {
					c.Undecided("C01/R4", fd.Name.Name+":non-constant format", p.pos(call.Pos()), "format is not a constant")
					return true
				}
				format := constant.StringVal(tv.Value)
				verbs := verbRe.FindAllString(format, -1)
				args := call.Args[2:]
				if len(verbs) != len(args) {
					c.Bad("C01/R4", fmt.Sprintf("%s:%q:arity", fd.Name.Name, format), p.pos(call.Pos()), fmt.Sprintf("format has %d verbs but %d arguments", len(verbs), len(args)))
					return true
				}
				for i, vb := range verbs {
					n++
					at := info.TypeOf(args[i])
					letter := vb[len(vb)-1]
					plain := len(vb) == 2
					key := fmt.Sprintf("%s:%q:verb%d", fd.Name.Name, format, i)
					site := p.pos(call.Pos())
					switch {
					case isFloat(at):
						c.Check((letter == 'v' || letter == 'g') && plain, "C01/R4", key, site, "float printed in shortest round-trip form",
							fmt.Sprintf("float64 printed with %s: not the shortest form that parses back to the same value", vb))
					case isInteger(at):
						c.Check((letter == 'd' || letter == 'v') && plain, "C01/R4", key, site, "integer printed exactly", "integer printed with "+vb)
					default:
						c.Check((letter == 's' || letter == 'v') && plain, "C01/R4", key, site, "text printed verbatim", "text printed with "+vb+": not verbatim")
					}
				}
				// R5: unit metadata line
				if strings.HasPrefix(format, "Unit") {
					nUnit++
					sk := verbRe.ReplaceAllString(format, "%")
					var fields []string
					for _, a := range args {
						if s, ok := a.(*ast.SelectorExpr); ok {
							fields = append(fields, s.Sel.Name)
						} else {
							fields = append(fields, "?")
						}
					}
					c.Check(sk == "Unit % %=%\n" && strings.Join(fields, ",") == "OrigUnit,Key,Value", "C01/R5", fd.Name.Name+":unit-line", p.pos(call.Pos()),
						"Unit <OrigUnit> <Key>=<Value>", fmt.Sprintf("unit metadata written as %q with fields %v; the reader expects 'Unit <unit as written> <key>=<value>'", format, fields))
				}
				return true
			})
		}
	}
	// R5, second form: the line assembled by consecutive writes into the buffer (WriteString/WriteByte) in one block
	bufF := p.Field("benchfmt", "Writer", "buf")
	for _, fn := range p.Funcs("benchfmt") {
		if fn.Signature.Recv() == nil || recvName(fn.Signature.Recv().Type()) != "Writer" || bufF == nil {
			continue
		}
		for _, b := range fn.Blocks {
			var sb strings.Builder
			var first ssa.Instruction
			for _, in := range b.Instrs {
				call, ok := in.(*ssa.Call)
				if !ok || len(call.Call.Args) != 2 {
					continue
				}
				if f, _ := fieldOfAddr(call.Call.Args[0]); f != bufF {
					continue
				}
				co := calleeObj(&call.Call)
				if co == nil {
					continue
				}
				if first == nil {
					first = in
				}
				arg := call.Call.Args[1]
				switch co.Name() {
				case "WriteString":
					if k, ok := constString(arg); ok {
						sb.WriteString(k)
					} else if f, _ := loadOfField(arg); f != nil {
						sb.WriteString("%" + f.Name())
					} else {
						sb.WriteString("%?")
					}
				case "WriteByte", "WriteRune":
					if k, ok := constInt(arg); ok {
						sb.WriteRune(rune(k))
					} else {
						sb.WriteString("%?")
					}
				}
			}
			if line := sb.String(); strings.HasPrefix(line, "Unit") {
				nUnit++
				c.Check(line == "Unit %OrigUnit %Key=%Value\n", "C01/R5", fnName(fn)+":unit-line", p.pos(first.Pos()),
					"Unit <OrigUnit> <Key>=<Value>", fmt.Sprintf("unit metadata written as %q; the reader expects 'Unit <unit as written> <key>=<value>'", line))
			}
		}
	}
	c.Floor("C01/R4", "format verbs in Writer methods", n, 6)
	c.Floor("C01/R5", "unit metadata print sites", nUnit, 1)
}

func c01OneWriter(c *Ctx, p *Prog) {
	const R = "C01/R12"
	n := 0
	for _, fn := range p.Funcs("cmd/benchfilter") {
		loops := naturalLoops(fn)
		eachInstr(fn, func(b *ssa.BasicBlock, in ssa.Instruction) {
			call, ok := in.(*ssa.Call)
			if !ok || !objIs(calleeObj(&call.Call), modPath+"/benchfmt", "", "NewWriter") {
				return
			}
			n++
			inLoop := fn.Parent() != nil // a closure may be called repeatedly
			for _, lp := range loops {
				if lp.Blocks[b] {
					inLoop = true
				}
			}
			c.Check(!inLoop, R, fmt.Sprintf("%s:NewWriter#%d", fnName(fn), n), p.pos(call.Pos()), "created once, before the loop over the inputs", "the output writer is created inside a loop (or a closure): each new writer starts with an empty idea of what configuration the stream already carries, so it neither deletes keys the previous inputs set nor skips unchanged ones; read back, results of a later input inherit keys that only an earlier input had")
		})
	}
	c.Floor(R, "writers created by the filter command", n, 1)
}

// c01Forwarded (C01/R13): the filter command passes on every kind of record the writer knows how to write. The kinds
// are read off Writer.Write's own type switch; for each kind other than the syntax error, there must be a path from the
// call that fetches the record to the call of Writer.Write on which every type test of the record agrees with that
// kind (a test for the kind itself succeeds, a test for another concrete kind fails).
func c01Forwarded(c *Ctx, p *Prog) {
	const R = "C01/R13"
	write := p.Method("benchfmt", "Writer", "Write")
	if write == nil {
		c.Undecided(R, "anchor:Writer.Write", "", "not found")
		return
	}
	var kinds []types.Type
	eachInstr(write, func(_ *ssa.BasicBlock, in ssa.Instruction) {
		if ta, ok := in.(*ssa.TypeAssert); ok && ta.X == ssa.Value(write.Params[1]) {
			if _, isIface := ta.AssertedType.Underlying().(*types.Interface); !isIface {
				kinds = append(kinds, ta.AssertedType)
			}
		}
	})
	n := 0
	for _, fn := range p.Funcs("cmd/benchfilter") {
		eachInstr(fn, func(wb *ssa.BasicBlock, in ssa.Instruction) {
			wc, ok := in.(*ssa.Call)
			if !ok || wc.Call.StaticCallee() != write {
				return
			}
			rec := wc.Call.Args[1]
			src, ok := rec.(ssa.Instruction)
			if !ok {
				return
			}
			for _, kt := range kinds {
				if strings.HasSuffix(kt.String(), "SyntaxError") {
					continue
				}
				n++
				key := fmt.Sprintf("%s:forwards %s", fnName(fn), types.TypeString(kt, func(*types.Package) string { return "" }))
				// path search from the fetch to the write, answering the record's type tests for kind kt
				seen := map[*ssa.BasicBlock]bool{}
				var reach func(b *ssa.BasicBlock) bool
				reach = func(b *ssa.BasicBlock) bool {
					if b == wb {
						return true
					}
					if seen[b] {
						return false
					}
					seen[b] = true
					if ifi, ok := b.Instrs[len(b.Instrs)-1].(*ssa.If); ok {
						if ex, ok := ifi.Cond.(*ssa.Extract); ok && ex.Index == 1 {
							if ta, ok := ex.Tuple.(*ssa.TypeAssert); ok && ta.X == rec {
								if _, isIface := ta.AssertedType.Underlying().(*types.Interface); !isIface {
									if types.Identical(ta.AssertedType, kt) {
										return reach(b.Succs[0])
									}
									return reach(b.Succs[1])
								}
							}
						}
					}
					for _, s := range b.Succs {
						if reach(s) {
							return true
						}
					}
					return false
				}
				ok := false
				if src.Block() == wb {
					ok = true
				} else {
					ok = reach(src.Block())
				}
				c.Check(ok, R, key, p.pos(wc.Pos()), "a record of this kind can reach the writer", "records of this kind are fetched but can never reach Writer.Write: the writer knows how to write them, the command drops them (unit metadata lines vanish from the filtered output, so a reader of that output no longer knows the units' better direction or assumptions)")
			}
		})
	}
	c.Floor(R, "record kinds forwarded by the filter command", n, 2)
}
