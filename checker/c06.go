// c06.go: C06 — filters keep exactly the measurements their boolean meaning denotes.
package main

import (
	"fmt"
	"go/constant"
	"go/token"
	"go/types"
	"sort"
	"strings"

	"golang.org/x/tools/go/ssa"
)

func init() { register("C06", checkC06) }

func checkC06(c *Ctx) {
	c.Rule("C06/R1", "Match is pure: nothing reachable from (*Filter).Match writes memory reached from its *Result argument, except the lazily built private key index; positive control: (*Filter).Apply does write Result.Values")
	c.Rule("C06/R2", "three-valued combiner tables (DESIGN Appendix A2): NOT negates a boolean and complements a mask; AND returns whole-false on any false operand, skips true operands and intersects masks; OR is the dual; the final value is the accumulated mask or the identity element")
	c.Rule("C06/R3", "bit layout: with W the width of the mask's word type, bit i lives in word i/W at position i%W (set, test), a mask for n bits has ceil(n/W) words, and All/Any pad exactly the bits at positions >= n — evaluated for every n up to 4W+2 and every word")
	c.Rule("C06/R4", "exhaustiveness: the combiner handles every parse.Op constant; the compiler's type switch handles every implementer of parse.Filter")
	c.Rule("C06/R5", "Apply keeps what Test says: the compaction stores element i at the write index exactly when Test(i) holds, the write index advances only then, and the result is resliced to it")
	c.Rule("C06/R6", "fixed lists conjoin: a projection with a fixed value list composes its membership tests with the caller's filter through the AND combiner, keeping the caller's filter among the operands")
	c.Rule("C06/R7", "grammar ↔ operators: OR builds OpOr, juxtaposition/AND builds OpAnd, '-' builds OpNot with one child, '*' builds OpAnd without children, key:(a OR b) builds OpOr of matches")
	c.Rule("C06/R8", "extractor results are views into the Result: they are consumed immediately (matched, converted to string, interned) and never stored in state that outlives the call")

	c.Rule("C06/R11", "leaf verdict: FilterMatch.Match/MatchString return the regexp's verdict on the whole value when the term is a regexp and equality with the literal otherwise; no other property of the value (such as being empty because the key is absent) decides")
	c.Rule("C06/R10", "what a /key term is matched against: the sub-name lookup scans all parts of the name in order and takes the first part carrying the key (same rule as C05/R4)")
	c.Rule("C06/R12", "what a .unit term is matched against (same rule as C04/R5): the base unit, and the unit as written only when one was written")
	c.Rule("C06/R13", "every sub-expression of an AND/OR/NOT node is compiled into the operator's operand list: no path of the operand loop skips the recursive compilation")
	c.Rule("C06/R20", "a result the filter rejects is left without measurements: every return of Match.Apply that is not the constant true follows a store to the result's Values")
	c.Rule("C06/R19", "AND and OR are exactly these words: the bare-word scanner compares the scanned text itself with the two operator words, not a function of it")
	c.Rule("C06/R18", "every fixed value list filters: the membership test makeProjection returns is appended to the list that is ANDed with the caller's filter (and every field is made: same rule as C07/R17)")
	c.Rule("C06/R17", "the fixed list a projection filters by is its own (same rule as C09/R8): comparator state — the list's index map, a field's observation map — is per field and written only where that field's values are observed, so projecting cannot widen the list")
	c.Rule("C06/R16", "a term sees an absent key as the empty string (same rule as C05/R5): the closure built for a key:value term returns FilterMatch.Match(extractor(result)) on every path")
	c.Rule("C06/R15", "the fixed-list membership test judges the value the key names: every extractor handed to the fixed-list filter constructor in makeProjection is a function of the result alone (a package function, a closure over constants, the result of newExtractor) and never reads the projection parser or a projection")
	c.Rule("C06/R14", "compiled filter functions keep no per-call state: no closure built by NewFilter that takes a result writes memory it captured, directly or through a method of a captured object")
	c.Rule("C06/R9", "no stale verdicts: any cache inside the filter's compiled closures and the functions they call is keyed by every input of the cached value (a per-filter memo keyed by the base unit alone would hand a later measurement with another written unit the first one's verdict); today there is none, and the detector is shown to work on the unit-tidying cache")
	p := mustLoad(c, loadOpts{}, "./benchproc", "./benchproc/internal/parse", "./benchfmt", "./benchunit", "./benchmath")
	c06Combiners(c, p)
	c06Bits(c, p)
	c06Purity(c, p)
	c06Exhaustive(c, p)
	c06Apply(c, p)
	c06Conjoin(c, p, "C06/R6")
	c06Grammar(c, p)
	c06Views(c, p)
	c06Memo(c, p)
	c06Leaf(c, p)
	c05Lookup(c, p, "C06/R10")
	c04UnitTerm(c, p, "C06/R12")
	c06Operands(c, p)
	c06Reentrant(c, p)
	c06FixedListSeesTheKey(c, p)
	c05AbsentIsEmpty(c, p, "C06/R16")
	c.Under("C09/R8", "C06/R17", func() { c09PerField(c, p) })
	c06EveryListFilters(c, p)
	c06OperatorsVerbatim(c, p, "C06/R19")
	c06ApplyFilters(c, p)
	c07EveryPartMade(c, p, "C06/R18")
}

// c06Operands (C06/R13): the compiled operator gets one compiled operand per sub-expression. In the loop over a node's
// sub-expressions no path returns to the loop head without having passed the recursive compilation of that operand
// ("*" is the neutral element of AND but the absorbing one of OR: x OR * is *, not x).
func c06Operands(c *Ctx, p *Prog) {
	const R = "C06/R13"
	exprsF := p.Field("benchproc/internal/parse", "FilterOp", "Exprs")
	nf := p.Fn("benchproc", "NewFilter")
	if exprsF == nil || nf == nil {
		c.Undecided(R, "anchor:NewFilter/FilterOp.Exprs", "", "not found")
		return
	}
	// the compiler: NewFilter, its closures and the benchproc functions they call that take a parse.Filter
	var cands []*ssa.Function
	for _, f := range staticReach([]*ssa.Function{nf}, bprocPkg) {
		cands = append(cands, f)
	}
	n := 0
	for _, fn := range cands {
		for _, lp := range naturalLoops(fn) {
			// a loop over q.Exprs: indexes (or ranges) the slice loaded from the Exprs field
			overExprs := false
			for b := range lp.Blocks {
				for _, in := range b.Instrs {
					if ia, ok := in.(*ssa.IndexAddr); ok {
						if f, _ := loadOfField(ia.X); f == exprsF {
							overExprs = true
						}
					}
				}
			}
			if !overExprs {
				continue
			}
			// blocks that compile an operand: a call whose argument is an element of Exprs
			compiles := map[*ssa.BasicBlock]bool{}
			for b := range lp.Blocks {
				for _, in := range b.Instrs {
					call, ok := in.(*ssa.Call)
					if !ok {
						continue
					}
					for _, a := range call.Call.Args {
						if ld, ok := a.(*ssa.UnOp); ok && ld.Op == token.MUL {
							if ia, ok := ld.X.(*ssa.IndexAddr); ok {
								if f, _ := loadOfField(ia.X); f == exprsF {
									if _, isMod := call.Call.Value.(*ssa.Builtin); !isMod {
										sc := call.Call.StaticCallee()
										// the recursive compilation: a call of a closure variable, or of a function that
										// returns the compiled filter type
										if sc == nil || sc.Signature.Results().Len() == 2 {
											compiles[b] = true
										}
									}
								}
							}
						}
					}
				}
			}
			if len(compiles) == 0 {
				continue
			}
			n++
			start := loopBodyStart(lp)
			skipAt := ""
			if start != nil {
				seen := map[*ssa.BasicBlock]bool{}
				work := []*ssa.BasicBlock{start}
				for len(work) > 0 && skipAt == "" {
					b := work[len(work)-1]
					work = work[:len(work)-1]
					if seen[b] || !lp.Blocks[b] || compiles[b] {
						continue
					}
					seen[b] = true
					for _, s := range b.Succs {
						if s == lp.Header {
							skipAt = p.pos(b.Instrs[len(b.Instrs)-1].Pos())
							for i := len(b.Instrs) - 1; i >= 0 && skipAt == ""; i-- {
								skipAt = p.pos(b.Instrs[i].Pos())
							}
						} else {
							work = append(work, s)
						}
					}
				}
			}
			// and there is no way round the loop: once the node is known to be an operator node, every successful
			// return has passed the loop's header
			var starts []*ssa.BasicBlock
			for _, prm := range fn.Params {
				if strings.HasSuffix(prm.Type().String(), "parse.FilterOp") {
					starts = append(starts, fn.Blocks[0])
				}
			}
			eachInstr(fn, func(b *ssa.BasicBlock, in ssa.Instruction) {
				ta, ok := in.(*ssa.TypeAssert)
				if !ok || !strings.HasSuffix(ta.AssertedType.String(), "parse.FilterOp") {
					return
				}
				if !ta.CommaOk {
					starts = append(starts, b)
					return
				}
				for _, r := range *ta.Referrers() {
					if ex, ok := r.(*ssa.Extract); ok && ex.Index == 1 {
						for _, r2 := range *ex.Referrers() {
							if ifi, ok := r2.(*ssa.If); ok {
								starts = append(starts, ifi.Block().Succs[0])
							}
						}
					}
				}
			})
			bypass := ""
			for _, st := range starts {
				seen := map[*ssa.BasicBlock]bool{}
				work := []*ssa.BasicBlock{st}
				for len(work) > 0 && bypass == "" {
					b := work[len(work)-1]
					work = work[:len(work)-1]
					if seen[b] || b == lp.Header {
						continue
					}
					seen[b] = true
					if ret, ok := b.Instrs[len(b.Instrs)-1].(*ssa.Return); ok && len(ret.Results) == 2 {
						if k, ok := retVal(ret, 1).(*ssa.Const); ok && k.IsNil() {
							if k0, ok := retVal(ret, 0).(*ssa.Const); !ok || !k0.IsNil() {
								bypass = p.pos(ret.Pos())
							}
						}
					}
					work = append(work, b.Succs...)
				}
			}
			c.Check(bypass == "", R, fmt.Sprintf("%s:no-way-round-the-operands#%d", fnName(fn), n), p.pos(fn.Pos()), "an operator node is compiled only through the loop over its operands",
				"an AND/OR/NOT node can be compiled successfully (return near "+bypass+") without its operands being compiled one by one: whatever that shortcut looks at, the operands it did not look at (a regular expression among literals, a different key, a nested expression) are lost from the filter")
			c.Check(skipAt == "", R, fmt.Sprintf("%s:every-operand-compiled#%d", fnName(fn), n), p.pos(fn.Pos()), "every sub-expression is compiled into the operator's operand list",
				"a sub-expression of an AND/OR node can be left out of the compiled operand list (the loop continues near "+skipAt+" without compiling it): dropping '*' is harmless under AND but wrong under OR — x OR * must match everything, * OR * becomes the empty OR (false), and -(x OR *) keeps measurements")
		}
	}
	c.Floor(R, "loops compiling the operands of a filter node", n, 1)
}

// c06Reentrant (C06/R14): a compiled filter keeps no per-call result in captured variables. A Match returned for one
// result stays valid when the same Filter is asked about the next: no closure created while compiling a filter writes
// (directly, or through a method it calls on a captured object) memory it captured.
func c06Reentrant(c *Ctx, p *Prog) {
	const R = "C06/R14"
	nf := p.Fn("benchproc", "NewFilter")
	if nf == nil {
		c.Undecided(R, "anchor:NewFilter", "", "not found")
		return
	}
	closuresKeepNoState(c, p, R, []*ssa.Function{nf}, 3, "a compiled filter function writes memory it captured (at %s): a result kept between calls — a bit mask reused for the next measurement set — means the Match handed out for one result changes when the same Filter is asked about another")
}

// closuresKeepNoState: of the closures created (transitively) under roots and the benchproc functions they call, those that
// take a *benchfmt.Result write nothing they captured, directly or through a pointer-receiver method of a captured object.
func closuresKeepNoState(c *Ctx, p *Prog, R string, roots []*ssa.Function, floor int, msg string) {
	var closures []*ssa.Function
	for _, f := range staticReach(roots, bprocPkg) {
		if f.Parent() == nil {
			continue
		}
		takesResult := false
		for _, prm := range f.Params {
			if pt, ok := prm.Type().(*types.Pointer); ok && recvName(pt) == "Result" {
				takesResult = true
			}
		}
		if takesResult {
			closures = append(closures, f)
		}
	}
	// bound methods handed out as functions (e.extract): the object bound is the state; the method must not write it
	boundRecv := map[*ssa.Function]bool{}
	for _, f := range staticReach(roots, bprocPkg) {
		eachInstr(f, func(_ *ssa.BasicBlock, in ssa.Instruction) {
			mc, ok := in.(*ssa.MakeClosure)
			if !ok {
				return
			}
			w, ok := mc.Fn.(*ssa.Function)
			if !ok || w.Synthetic == "" {
				return
			}
			mo, ok := w.Object().(*types.Func)
			if !ok {
				return
			}
			m := p.SSA.FuncValue(mo)
			if m == nil || m.Blocks == nil || m.Pkg == nil || m.Pkg.Pkg.Path() != bprocPkg {
				return
			}
			for _, prm := range m.Params {
				if pt, ok := prm.Type().(*types.Pointer); ok && recvName(pt) == "Result" && !boundRecv[m] {
					boundRecv[m] = true
					closures = append(closures, m)
				}
			}
		})
	}
	isState := func(cl *ssa.Function, v ssa.Value) bool {
		if rootIsFreeVar(v, 0) {
			return true
		}
		if boundRecv[cl] {
			// rooted in the receiver
			a := v
			for i := 0; i < 8; i++ {
				switch y := a.(type) {
				case *ssa.FieldAddr:
					a = y.X
					continue
				case *ssa.IndexAddr:
					a = y.X
					continue
				case *ssa.UnOp:
					a = y.X
					continue
				case *ssa.Slice:
					a = y.X
					continue
				}
				break
			}
			return a == ssa.Value(cl.Params[0])
		}
		return false
	}
	n := 0
	for _, cl := range closures {
		cl := cl
		n++
		bad := ""
		eachInstr(cl, func(_ *ssa.BasicBlock, in ssa.Instruction) {
			switch x := in.(type) {
			case *ssa.Store:
				if isState(cl, x.Addr) {
					bad = p.pos(x.Pos())
				}
			case *ssa.MapUpdate:
				if rootIsFreeVar(x.Map, 0) {
					// a cache keyed completely is C06/R9's business; a per-call scratch map is not expected here
				}
			case *ssa.Call:
				// a method with a pointer receiver called on a captured object that writes through its receiver
				sc := x.Call.StaticCallee()
				if sc == nil || sc.Pkg == nil || sc.Pkg.Pkg.Path() != bprocPkg || sc.Signature.Recv() == nil || len(x.Call.Args) == 0 {
					return
				}
				if !isState(cl, x.Call.Args[0]) {
					return
				}
				writes := false
				eachInstr(sc, func(_ *ssa.BasicBlock, in2 ssa.Instruction) {
					if st, ok := in2.(*ssa.Store); ok {
						// stores through the receiver (its fields or the elements of its slices)
						a := st.Addr
						for i := 0; i < 6; i++ {
							switch y := a.(type) {
							case *ssa.FieldAddr:
								a = y.X
								continue
							case *ssa.IndexAddr:
								a = y.X
								continue
							case *ssa.UnOp:
								a = y.X
								continue
							}
							break
						}
						if a == ssa.Value(sc.Params[0]) {
							writes = true
						}
					}
				})
				if writes {
					bad = p.pos(x.Pos())
				}
			}
		})
		c.Check(bad == "", R, fmt.Sprintf("%s:keeps-no-state", fnName(cl)), p.pos(cl.Pos()), "writes nothing it captured", fmt.Sprintf(msg, bad))
	}
	c.Floor(R, "closures and bound methods taking a result", n, floor)
}

// rootIsFreeVar: the address or value is rooted (through fields, elements and loads) in a variable captured by the closure.
func rootIsFreeVar(v ssa.Value, d int) bool {
	if d > 8 {
		return false
	}
	switch x := v.(type) {
	case *ssa.FreeVar:
		return true
	case *ssa.FieldAddr:
		return rootIsFreeVar(x.X, d+1)
	case *ssa.IndexAddr:
		return rootIsFreeVar(x.X, d+1)
	case *ssa.UnOp:
		return rootIsFreeVar(x.X, d+1)
	case *ssa.Slice:
		return rootIsFreeVar(x.X, d+1)
	}
	return false
}

// bitOpOf: the single bitwise operator a mask method applies to its elements ("&", "|", "^").
func bitOpOf(fn *ssa.Function) string {
	ops := map[string]bool{}
	eachInstr(fn, func(_ *ssa.BasicBlock, in ssa.Instruction) {
		switch x := in.(type) {
		case *ssa.BinOp:
			switch x.Op {
			case token.AND:
				ops["&"] = true
			case token.OR:
				ops["|"] = true
			case token.XOR:
				ops["^"] = true
			}
		case *ssa.UnOp:
			if x.Op == token.XOR {
				ops["^"] = true
			}
		}
	})
	if len(ops) != 1 {
		return ""
	}
	for k := range ops {
		return k
	}
	return ""
}

func c06Combiners(c *Ctx, p *Prog) {
	const R = "C06/R2"
	fo := p.Fn("benchproc", "filterOp")
	// role: the function in benchproc taking (parse.Op, []filterFn) and returning filterFn
	if fo == nil {
		for _, fn := range p.Funcs("benchproc") {
			if fn.Signature.Params().Len() == 2 && strings.HasSuffix(fn.Signature.Params().At(0).Type().String(), "parse.Op") {
				fo = fn
			}
		}
	}
	if fo == nil {
		c.Undecided(R, "anchor:combiner", "", "no function from (parse.Op, []filterFn) to filterFn found")
		return
	}
	opNames := map[string]string{}
	for _, n := range []string{"OpAnd", "OpOr", "OpNot"} {
		if k, ok := p.Obj("benchproc/internal/parse", n).(*types.Const); ok {
			opNames[constKey(k.Val())] = n
		}
	}
	facts := constFacts(fo, func(v ssa.Value) bool { return v == fo.Params[0] })
	closures := map[string]*ssa.Function{}
	decides := map[string]func(*Sym) (bool, bool){}
	for _, b := range fo.Blocks {
		ret, ok := b.Instrs[len(b.Instrs)-1].(*ssa.Return)
		if !ok {
			continue
		}
		mc, ok := stripConv(retVal(ret, 0)).(*ssa.MakeClosure)
		if !ok {
			continue
		}
		st := facts[b]
		if st.Top || len(st.In) == 0 {
			continue
		}
		for k := range st.In {
			if opNames[k] == "" {
				continue
			}
			clo := mc.Fn.(*ssa.Function)
			closures[opNames[k]] = clo
			// a method value (subs[0].negated): the closure is the compiler's bound-method wrapper, the logic is the method
			if clo.Synthetic != "" {
				if mo, ok := clo.Object().(*types.Func); ok {
					if m := p.SSA.FuncValue(mo); m != nil && m.Blocks != nil {
						closures[opNames[k]] = m
					}
				}
			}
			// one closure may serve several operators through captured values computed from the operator
			// (decisive := op == OpOr): those are answered per operator
			known := map[string]bool{}
			for i, bnd := range mc.Bindings {
				var val ssa.Value = bnd
				if al, ok := bnd.(*ssa.Alloc); ok {
					var stores []*ssa.Store
					for _, r := range *al.Referrers() {
						if s, ok := r.(*ssa.Store); ok && s.Addr == al {
							stores = append(stores, s)
						}
					}
					if len(stores) != 1 {
						continue
					}
					val = stores[0].Val
				}
				if bo, ok := val.(*ssa.BinOp); ok && (bo.Op == token.EQL || bo.Op == token.NEQ) {
					var kc *ssa.Const
					if bo.X == fo.Params[0] {
						kc, _ = bo.Y.(*ssa.Const)
					} else if bo.Y == fo.Params[0] {
						kc, _ = bo.X.(*ssa.Const)
					}
					if kc != nil && kc.Value != nil {
						eq := constKey(kc.Value) == k
						if i < len(clo.FreeVars) {
							known[clo.FreeVars[i].Name()] = eq == (bo.Op == token.EQL)
						}
					}
				}
			}
			kn := known
			decides[opNames[k]] = func(s *Sym) (bool, bool) {
				if s.Op == "load" && len(s.Args) == 1 && s.Args[0].Op == "free" {
					v, ok := kn[s.Args[0].Name]
					return v, ok
				}
				if s.Op == "free" {
					v, ok := kn[s.Name]
					return v, ok
				}
				return false, false
			}
		}
	}
	for _, op := range []string{"OpAnd", "OpOr", "OpNot"} {
		if closures[op] == nil {
			c.Undecided(R, "combiner:"+op, p.pos(fo.Pos()), "no closure returned for "+op)
		}
	}
	maskT := p.Named("benchproc", "mask")
	methodOp := func(a e6Action) string {
		if a.Callee == nil {
			return ""
		}
		if sig := a.Callee.Type().(*types.Signature); sig.Recv() == nil || recvName(sig.Recv().Type()) != "mask" {
			return ""
		}
		if m := p.Method("benchproc", "mask", a.Callee.Name()); m != nil {
			return bitOpOf(m)
		}
		return ""
	}
	_ = maskT
	for _, op := range []string{"OpAnd", "OpOr"} {
		fn := closures[op]
		if fn == nil {
			continue
		}
		site := p.pos(fn.Pos())
		loops := naturalLoops(fn)
		if len(loops) != 1 {
			c.Undecided(R, op+":loop", site, "expected one loop over the operands")
			continue
		}
		lp := loops[0]
		// accumulator: the header phi of mask type
		var acc *ssa.Phi
		for _, in := range lp.Header.Instrs {
			if phi, ok := in.(*ssa.Phi); ok && !isInteger(phi.Type()) {
				acc = phi
			}
		}
		if acc == nil {
			c.Undecided(R, op+":accumulator", site, "no mask accumulator found")
			continue
		}
		start := loopBodyStart(lp)
		mkOp := func() *e6Interp { return &e6Interp{Decide: decides[op]} }
		evalBool := func(s *Sym) (bool, bool) {
			for d := 0; d < 4; d++ {
				if b, ok := s.boolConst(); ok {
					return b, true
				}
				if decides[op] != nil {
					if b, ok := decides[op](s); ok {
						return b, true
					}
				}
				if s.Op == "unop" && s.Tok == token.NOT {
					b, ok := evalBoolOnce(s.Args[0], decides[op])
					return !b, ok
				}
				break
			}
			return false, false
		}
		outs, why := e6Enumerate(mkOp, start, lp.Header, iterStop(lp, start), 256)
		if why != "" {
			c.Undecided(R, op+":table", site, why)
			continue
		}
		wantBit := "&"
		shortOn := false // the boolean value that short-circuits
		if op == "OpOr" {
			wantBit = "|"
			shortOn = true
		}
		for _, o := range outs {
			var m2nil, x, accNil *bool
			unknown := ""
			for _, k := range o.AtomKeys() {
				v := o.Assign[k]
				_ = v
				s := o.AtomSyms[k]
				vv := v
				switch {
				case s.Op == "binop" && s.Tok == token.EQL && s.Args[1].isConst() && s.Args[1].IsNil && s.Args[0].Op == "extract" && s.Args[0].Idx == 0:
					m2nil = &vv
				case s.Op == "extract" && s.Idx == 1:
					x = &vv
				case s.Op == "binop" && s.Tok == token.EQL && s.Args[1].isConst() && s.Args[1].IsNil && s.Args[0].Op == "opaque":
					accNil = &vv
				default:
					unknown = k
				}
			}
			if unknown != "" {
				c.Undecided(R, op+":atoms", site, "condition outside the table: "+unknown)
				break
			}
			// enumerate the operand kinds this outcome covers
			for _, kind := range []string{"T", "F", "M"} {
				for _, an := range []bool{true, false} {
					// consistency with the partial valuation
					isNil := kind != "M"
					xv := kind == "T"
					if m2nil != nil && *m2nil != isNil {
						continue
					}
					if x != nil && kind != "M" && *x != xv {
						continue
					}
					if accNil != nil && *accNil != an {
						continue
					}
					key := fmt.Sprintf("%s[operand=%s acc=%s]", op, kind, map[bool]string{true: "none", false: "mask"}[an])
					var errs []string
					returns := o.Term == "return"
					contin := o.Term == "exit" && o.Exit == lp.Header
					var accNext *Sym
					if contin {
						for j, pr := range lp.Header.Preds {
							if pr == o.ExitFrom {
								accNext = o.Val(acc.Edges[j])
							}
						}
					}
					accCur := o.Val(acc)
					var bitCalls []string
					for _, a := range o.Actions {
						if a.Kind == "call" {
							if bo := methodOp(a); bo != "" {
								bitCalls = append(bitCalls, bo)
								// called on (acc, operand)
								if len(a.Args) != 2 || a.Args[0].String() != accCur.String() {
									errs = append(errs, "the mask operation is not applied to the accumulated mask")
								}
							}
						}
					}
					switch {
					case kind != "M" && xv == shortOn:
						if !returns || len(o.Results) != 2 || !(o.Results[0].isConst() && o.Results[0].IsNil) {
							errs = append(errs, "a whole-result "+fmt.Sprint(shortOn)+" operand must decide the result at once")
						} else if b, ok := evalBool(o.Results[1]); !ok || b != shortOn {
							errs = append(errs, fmt.Sprintf("short-circuit returns %v, must return %v", o.Results[1], shortOn))
						}
					case kind != "M":
						if !contin || accNext == nil || accNext.String() != accCur.String() || len(bitCalls) > 0 {
							errs = append(errs, "a neutral operand must be skipped without changing the accumulated mask")
						}
					case kind == "M" && an:
						if !contin || accNext == nil || !(accNext.Op == "extract" && accNext.Idx == 0) || len(bitCalls) > 0 {
							errs = append(errs, "the first mask operand must become the accumulated mask (its boolean is irrelevant)")
						}
					case kind == "M" && !an:
						if !contin || len(bitCalls) != 1 || bitCalls[0] != wantBit || accNext == nil || accNext.String() != accCur.String() {
							errs = append(errs, fmt.Sprintf("a further mask operand must be combined into the accumulated mask with %s (found %v)", wantBit, bitCalls))
						}
					}
					if len(errs) > 0 {
						c.Bad(R, key, site, strings.Join(errs, "; "), "valuation: "+o.AssignStr())
					} else {
						c.OK(R, key, site, "conforms")
					}
				}
			}
		}
		// exit: return (acc, identity) — evaluated from the loop header on the path that leaves the loop
		{
			houts, hwhy := e6Enumerate(mkOp, lp.Header, nil, map[*ssa.BasicBlock]bool{lp.Header: true}, 256)
			nExit := 0
			if hwhy == "" {
				for _, o := range houts {
					if o.Term != "return" || len(o.Results) != 2 || len(o.Actions) > 0 {
						continue
					}
					// the path that took no operand: its first result is the accumulator as it entered the header
					if o.Results[0].String() != o.Val(acc).String() {
						continue
					}
					nExit++
					b, ok := evalBool(o.Results[1])
					c.Check(ok && b == !shortOn, R, op+"[end of operands]", site, fmt.Sprintf("returns (accumulated mask, %v)", !shortOn),
						fmt.Sprintf("after the last operand the combiner must return the accumulated mask, or whole-result %v when there was none", !shortOn))
				}
			}
			if nExit == 0 {
				c.Undecided(R, op+"[end of operands]", site, "the return after the last operand was not found "+hwhy)
			}
		}
	}
	// NOT
	if fn := closures["OpNot"]; fn != nil {
		site := p.pos(fn.Pos())
		outs, why := e6Enumerate(func() *e6Interp { return &e6Interp{} }, fn.Blocks[0], nil, nil, 64)
		if why != "" {
			c.Undecided(R, "OpNot:table", site, why)
		}
		for _, o := range outs {
			var mnil *bool
			for _, k := range o.AtomKeys() {
				v := o.Assign[k]
				_ = v
				s := o.AtomSyms[k]
				vv := v
				if s.Op == "binop" && s.Tok == token.EQL && s.Args[1].isConst() && s.Args[1].IsNil {
					mnil = &vv
				}
				_ = k
			}
			if mnil == nil || o.Term != "return" || len(o.Results) != 2 {
				c.Undecided(R, "OpNot:shape", site, "NOT does not test whether its operand is a mask")
				continue
			}
			if *mnil {
				r := o.Results[1]
				ok := o.Results[0].isConst() && o.Results[0].IsNil && r.Op == "unop" && r.Tok == token.NOT && r.Args[0].Op == "extract" && r.Args[0].Idx == 1
				c.Check(ok, R, "OpNot[operand=boolean]", site, "returns (nil, !x)", "NOT of a whole-result operand must be its negation")
			} else {
				var ops []string
				for _, a := range o.Actions {
					if bo := methodOp(a); bo != "" {
						ops = append(ops, bo)
					}
				}
				ok := len(ops) == 1 && ops[0] == "^" && o.Results[0].Op == "extract" && o.Results[0].Idx == 0
				c.Check(ok, R, "OpNot[operand=mask]", site, "complements the mask", fmt.Sprintf("NOT of a mask operand must complement it (operations applied: %v)", ops))
			}
		}
	}
}

// ---- R3 ----

// evalInt evaluates an integer SSA expression under env with the wrap-around of its static types.
func evalInt(v ssa.Value, env map[ssa.Value]int64) (int64, bool) {
	if x, ok := env[v]; ok {
		return x, true
	}
	trunc := func(x int64, t types.Type) int64 {
		b, ok := t.Underlying().(*types.Basic)
		if !ok {
			return x
		}
		switch b.Kind() {
		case types.Uint8:
			return int64(uint8(x))
		case types.Uint16:
			return int64(uint16(x))
		case types.Uint32:
			return int64(uint32(x))
		case types.Int8:
			return int64(int8(x))
		case types.Int16:
			return int64(int16(x))
		case types.Int32:
			return int64(int32(x))
		}
		return x
	}
	switch x := v.(type) {
	case *ssa.Const:
		if x.Value == nil || x.Value.Kind() != constant.Int {
			return 0, false
		}
		if n, ok := constant.Int64Val(x.Value); ok {
			return trunc(n, x.Type()), true
		}
		if n, ok := constant.Uint64Val(x.Value); ok {
			return int64(n), true
		}
	case *ssa.Convert:
		n, ok := evalInt(x.X, env)
		return trunc(n, x.Type()), ok
	case *ssa.ChangeType:
		return evalInt(x.X, env)
	case *ssa.UnOp:
		n, ok := evalInt(x.X, env)
		if !ok {
			return 0, false
		}
		switch x.Op {
		case token.XOR:
			return trunc(^n, x.Type()), true
		case token.SUB:
			return trunc(-n, x.Type()), true
		case token.NOT:
			if n == 0 {
				return 1, true
			}
			return 0, true
		}
	case *ssa.Call:
		// a small helper of the same program: evaluate its (single-block) body with the arguments bound
		sc := x.Call.StaticCallee()
		if sc == nil || len(sc.Blocks) != 1 {
			return 0, false
		}
		ret, ok := sc.Blocks[0].Instrs[len(sc.Blocks[0].Instrs)-1].(*ssa.Return)
		if !ok || len(ret.Results) != 1 {
			return 0, false
		}
		env2 := map[ssa.Value]int64{}
		for k, v := range env {
			env2[k] = v
		}
		for i, a := range x.Call.Args {
			if i < len(sc.Params) {
				if n, ok := evalInt(a, env); ok {
					env2[sc.Params[i]] = n
				}
			}
		}
		if evalIntPrepare != nil {
			evalIntPrepare(sc, env2)
		}
		return evalInt(ret.Results[0], env2)
	case *ssa.BinOp:
		a, ok1 := evalInt(x.X, env)
		b, ok2 := evalInt(x.Y, env)
		if !ok1 || !ok2 {
			return 0, false
		}
		bits := int64(64)
		if bt, ok := x.Type().Underlying().(*types.Basic); ok {
			switch bt.Kind() {
			case types.Uint32, types.Int32:
				bits = 32
			case types.Uint8, types.Int8:
				bits = 8
			case types.Uint16, types.Int16:
				bits = 16
			}
		}
		var r int64
		switch x.Op {
		case token.ADD:
			r = a + b
		case token.SUB:
			r = a - b
		case token.MUL:
			r = a * b
		case token.QUO:
			if b == 0 {
				return 0, false
			}
			r = a / b
		case token.REM:
			if b == 0 {
				return 0, false
			}
			r = a % b
		case token.AND:
			r = a & b
		case token.OR:
			r = a | b
		case token.XOR:
			r = a ^ b
		case token.AND_NOT:
			r = a &^ b
		case token.SHL:
			if b < 0 {
				return 0, false // would panic at run time
			}
			if b >= bits {
				r = 0
			} else {
				r = a << uint(b)
			}
		case token.SHR:
			if b < 0 {
				return 0, false
			}
			if b >= bits {
				r = 0
			} else {
				r = int64(uint64(trunc(a, x.Type())) >> uint(b))
			}
		case token.EQL, token.NEQ, token.LSS, token.LEQ, token.GTR, token.GEQ:
			var t bool
			if bt, ok := x.X.Type().Underlying().(*types.Basic); ok && bt.Info()&types.IsUnsigned != 0 {
				ua, ub := uint64(a), uint64(b)
				switch x.Op {
				case token.EQL:
					t = ua == ub
				case token.NEQ:
					t = ua != ub
				case token.LSS:
					t = ua < ub
				case token.LEQ:
					t = ua <= ub
				case token.GTR:
					t = ua > ub
				case token.GEQ:
					t = ua >= ub
				}
			} else {
				switch x.Op {
				case token.EQL:
					t = a == b
				case token.NEQ:
					t = a != b
				case token.LSS:
					t = a < b
				case token.LEQ:
					t = a <= b
				case token.GTR:
					t = a > b
				case token.GEQ:
					t = a >= b
				}
			}
			if t {
				return 1, true
			}
			return 0, true
		default:
			return 0, false
		}
		return trunc(r, x.Type()), true
	}
	return 0, false
}

// evalIntPrepare lets a rule pre-bind values (field loads) in a callee before it is evaluated.
var evalIntPrepare func(fn *ssa.Function, env map[ssa.Value]int64)

func c06Bits(c *Ctx, p *Prog) {
	const R = "C06/R3"
	maskT := p.Named("benchproc", "mask")
	if maskT == nil {
		c.Undecided(R, "anchor:mask", "", "mask type not found")
		return
	}
	sl, ok := maskT.Underlying().(*types.Slice)
	if !ok {
		c.Undecided(R, "anchor:mask", "", "mask is not a slice of words")
		return
	}
	W := int64(0)
	if b, ok := sl.Elem().Underlying().(*types.Basic); ok {
		switch b.Kind() {
		case types.Uint8:
			W = 8
		case types.Uint16:
			W = 16
		case types.Uint32:
			W = 32
		case types.Uint64, types.Uint:
			W = 64
		}
	}
	if W == 0 {
		c.Undecided(R, "anchor:mask word", "", "mask word type is not an unsigned integer")
		return
	}
	full := int64(1)<<uint(W) - 1
	if W == 64 {
		full = -1
	}
	maxN := 4*W + 2
	// (a) number of words
	if fn := p.Fn("benchproc", "newMask"); fn != nil {
		okAll := true
		detail := ""
		eachInstr(fn, func(_ *ssa.BasicBlock, in ssa.Instruction) {
			ms, ok := in.(*ssa.MakeSlice)
			if !ok {
				return
			}
			for n := int64(0); n <= maxN; n++ {
				got, ok := evalInt(ms.Len, map[ssa.Value]int64{fn.Params[0]: n})
				want := (n + W - 1) / W
				if !ok || got != want {
					okAll = false
					detail = fmt.Sprintf("a mask for %d bits gets %d words, needs %d", n, got, want)
					break
				}
			}
		})
		c.Check(okAll, R, "newMask:words", p.pos(fn.Pos()), fmt.Sprintf("ceil(n/%d) words for n = 0..%d", W, maxN), detail)
	} else {
		c.Undecided(R, "anchor:newMask", "", "mask constructor not found")
	}
	// (b) set / Test: word index and bit
	var checkBit func(fn *ssa.Function, idxParam ssa.Value, name string)
	checkBit = func(fn *ssa.Function, idxParam ssa.Value, name string) {
		var wordIdx, bitExpr ssa.Value
		// the bit test may be delegated to a helper of the package that receives the index unchanged and whose
		// result is returned as it is: the helper is then the function judged
		var deleg *ssa.Function
		var delegParam ssa.Value
		eachInstr(fn, func(_ *ssa.BasicBlock, in ssa.Instruction) {
			call, ok := in.(*ssa.Call)
			if !ok {
				return
			}
			sc := call.Call.StaticCallee()
			if sc == nil || sc.Blocks == nil || sc.Pkg != fn.Pkg {
				return
			}
			for k, a := range call.Call.Args {
				if a != idxParam || k >= len(sc.Params) {
					continue
				}
				returned := false
				for _, r := range *call.Referrers() {
					if ret, ok := r.(*ssa.Return); ok && len(ret.Results) == 1 && ret.Results[0] == ssa.Value(call) {
						returned = true
					}
				}
				if returned {
					deleg, delegParam = sc, sc.Params[k]
				}
			}
		})
		eachInstr(fn, func(_ *ssa.BasicBlock, in ssa.Instruction) {
			switch x := in.(type) {
			case *ssa.IndexAddr:
				if isInteger(x.Index.Type()) {
					if _, isConst := x.Index.(*ssa.Const); !isConst {
						wordIdx = x.Index
					}
				}
			case *ssa.BinOp:
				if x.Op == token.SHL {
					bitExpr = x
				}
			}
		})
		if (wordIdx == nil || bitExpr == nil) && deleg != nil {
			checkBit(deleg, delegParam, name)
			return
		}
		if wordIdx == nil || bitExpr == nil {
			c.Undecided(R, name+":shape", p.pos(fn.Pos()), "word index or bit expression not found")
			return
		}
		okAll := true
		detail := ""
		seen := map[[2]int64]bool{}
		for i := int64(0); i <= maxN; i++ {
			env := map[ssa.Value]int64{idxParam: i}
			w, ok1 := evalInt(wordIdx, env)
			b, ok2 := evalInt(bitExpr, env)
			if !ok1 || !ok2 || w != i/W || b != int64(1)<<uint(i%W)&full && !(W == 64) {
				okAll = false
				detail = fmt.Sprintf("bit %d is placed in word %d as %#x; expected word %d, %#x", i, w, b, i/W, int64(1)<<uint(i%W))
				break
			}
			if seen[[2]int64{w, b}] {
				okAll = false
				detail = fmt.Sprintf("bit %d collides with an earlier bit", i)
				break
			}
			seen[[2]int64{w, b}] = true
		}
		c.Check(okAll, R, name+":bit-position", p.pos(fn.Pos()), fmt.Sprintf("bit i -> word i/%d, 1<<(i%%%d) for i = 0..%d (injective)", W, W, maxN), detail)
	}
	if fn := p.Method("benchproc", "mask", "set"); fn != nil {
		checkBit(fn, fn.Params[1], "mask.set")
	}
	if fn := p.Method("benchproc", "Match", "Test"); fn != nil {
		checkBit(fn, fn.Params[1], "Match.Test")
	}
	// (c) padding in All / Any
	nF := p.Field("benchproc", "Match", "n")
	for _, name := range []string{"All", "Any"} {
		fn := p.Method("benchproc", "Match", name)
		if fn == nil {
			c.Undecided(R, "anchor:Match."+name, "", "method not found")
			continue
		}
		// Evaluate one loop iteration concretely for every n, every word index and a set of word values, following the
		// branches (helper calls are evaluated in place): All must return false exactly when a bit below n is clear in
		// the word, Any must return true exactly when a bit below n is set; otherwise the scan goes on.
		var lp *loopInfo
		for _, l := range naturalLoops(fn) {
			lp = l
		}
		if lp == nil {
			c.Undecided(R, "Match."+name+":padding", p.pos(fn.Pos()), "no loop over the mask words")
			continue
		}
		var idxPhi *ssa.Phi
		rangeStyle := false
		for _, in := range lp.Header.Instrs {
			if phi, ok := in.(*ssa.Phi); ok && isInteger(phi.Type()) {
				idxPhi = phi
				for _, r := range *phi.Referrers() {
					if bo, ok := r.(*ssa.BinOp); ok && bo.Op == token.ADD {
						if k, ok := constInt(bo.Y); ok && k == 1 {
							// range loops index with phi+1 (phi starts at -1)
							for j, e := range phi.Edges {
								if !lp.Blocks[lp.Header.Preds[j]] {
									if k0, ok := constInt(e); ok && k0 == -1 {
										rangeStyle = true
									}
								}
							}
						}
					}
				}
			}
		}
		start := loopBodyStart(lp)
		if idxPhi == nil || start == nil {
			c.Undecided(R, "Match."+name+":padding", p.pos(fn.Pos()), "word loop not recognised")
			continue
		}
		bindLoads := func(f *ssa.Function, env map[ssa.Value]int64, n, x int64) {
			eachInstr(f, func(_ *ssa.BasicBlock, in ssa.Instruction) {
				if u, ok := in.(*ssa.UnOp); ok && u.Op == token.MUL {
					if fl, _ := loadOfField(u); fl == nF {
						env[u] = n
					}
					if _, isIA := u.X.(*ssa.IndexAddr); isIA && isInteger(u.Type()) {
						env[u] = x
					}
				}
			})
		}
		okAll := true
		detail := ""
		cases := 0
	outer:
		for n := int64(1); n <= maxN; n++ {
			words := (n + W - 1) / W
			for i := int64(0); i < words; i++ {
				var valid int64
				for j := int64(0); j < W; j++ {
					if i*W+j < n {
						valid |= 1 << uint(j)
					}
				}
				samples := []int64{0, valid, full, full &^ valid, valid &^ 1, 1, valid & (full << 1)}
				if hb := highestBit(valid); hb >= 0 {
					samples = append(samples, valid&^(1<<uint(hb)), 1<<uint(hb), (full&^valid)|(1<<uint(hb)))
				}
				for _, x := range samples {
					x &= full
					env := map[ssa.Value]int64{}
					if rangeStyle {
						env[idxPhi] = i - 1
					} else {
						env[idxPhi] = i
					}
					bindLoads(fn, env, n, x)
					evalIntPrepare = func(f *ssa.Function, e map[ssa.Value]int64) { bindLoads(f, e, n, x) }
					// other counters of the loop that move by a constant per word (bits still to come: rem -= 32): their
					// value in iteration i is start + i*step
					for _, in := range lp.Header.Instrs {
						phi, ok := in.(*ssa.Phi)
						if !ok || phi == idxPhi || !isInteger(phi.Type()) {
							continue
						}
						var init ssa.Value
						step, haveStep := int64(0), false
						for j, e := range phi.Edges {
							if !lp.Blocks[lp.Header.Preds[j]] {
								init = e
								continue
							}
							if bo, ok := e.(*ssa.BinOp); ok && bo.X == ssa.Value(phi) {
								if k, ok := constInt(bo.Y); ok {
									switch bo.Op {
									case token.ADD:
										step, haveStep = k, true
									case token.SUB:
										step, haveStep = -k, true
									}
								}
							}
						}
						if init != nil && haveStep {
							if v0, ok := evalInt(init, env); ok {
								env[phi] = v0 + i*step
							}
						}
					}
					outcome := "stuck"
					b := start
					for steps := 0; steps < 16; steps++ {
						last := b.Instrs[len(b.Instrs)-1]
						var next *ssa.BasicBlock
						switch t := last.(type) {
						case *ssa.If:
							v, ok := evalInt(t.Cond, env)
							if !ok {
								outcome = "cannot evaluate " + valStr(t.Cond)
							} else if v != 0 {
								next = b.Succs[0]
							} else {
								next = b.Succs[1]
							}
						case *ssa.Jump:
							next = b.Succs[0]
						case *ssa.Return:
							if k, ok := t.Results[0].(*ssa.Const); ok && k.Value != nil {
								outcome = "return " + k.Value.String()
							} else {
								outcome = "return ?"
							}
						}
						if next == nil {
							break
						}
						if next == lp.Header || !lp.Blocks[next] && len(next.Instrs) > 0 {
							if next == lp.Header {
								outcome = "continue"
								break
							}
						}
						b = next
					}
					evalIntPrepare = nil
					want := "continue"
					if name == "All" && x&valid != valid {
						want = "return false"
					}
					if name == "Any" && x&valid != 0 {
						want = "return true"
					}
					cases++
					if outcome != want {
						okAll = false
						detail = fmt.Sprintf("for a result with %d measurements, word %d holding %#x (bits below n: %#x): %s does %q where %q is required: measurements are ignored or phantom bits counted", n, i, x, valid, name, outcome, want)
						break outer
					}
				}
			}
		}
		c.Check(okAll, R, "Match."+name+":padding", p.pos(fn.Pos()), fmt.Sprintf("per word, %s decides on exactly the bits below n for all n = 1..%d, all words and %d word values", name, maxN, cases), detail)
	}
}

func highestBit(v int64) int {
	for j := 62; j >= 0; j-- {
		if v&(1<<uint(j)) != 0 {
			return j
		}
	}
	return -1
}

// ---- R1 / R8 ----

func c06Purity(c *Ctx, p *Prog) {
	const R = "C06/R1"
	fns := p.Funcs("benchproc", "benchproc/internal/parse", "benchfmt", "benchunit")
	eff := newEffects(p, fns)
	match := p.Method("benchproc", "Filter", "Match")
	apply := p.Method("benchproc", "Filter", "Apply")
	if match == nil || apply == nil {
		c.Undecided(R, "anchor:Filter.Match/Apply", "", "methods not found")
		return
	}
	fieldsOf := func(fn *ssa.Function) []string {
		s := eff.sums[fn]
		var out []string
		for l := range s.ParamFields[1] {
			out = append(out, l)
		}
		for l := range s.LooseFields {
			if strings.HasPrefix(l, "benchfmt.") {
				out = append(out, l+" (via copied pointer)")
			}
		}
		sort.Strings(out)
		return out
	}
	mf := fieldsOf(match)
	var bad []string
	for _, f := range mf {
		if f != "benchfmt.Result.configPos" {
			bad = append(bad, f)
		}
	}
	if len(mf) > 0 {
		c.Allow(R, "benchfmt.(*Result).ConfigIndex writes Result.configPos", "lazily built private index; not observable through the API")
	}
	c.Check(len(bad) == 0, R, "Match:pure", p.pos(match.Pos()), fmt.Sprintf("writes through the result argument: %v (allowed: the private key index)", mf),
		fmt.Sprintf("asking for the match modifies the result: %v is written through the *Result argument", bad))
	af := fieldsOf(apply)
	hasValues := false
	for _, f := range af {
		if f == "benchfmt.Result.Values" {
			hasValues = true
		}
	}
	if !hasValues {
		c.Undecided(R, "Apply:positive-control", p.pos(apply.Pos()), fmt.Sprintf("the write analysis does not see Apply writing Result.Values (sees %v): the purity verdict would be vacuous", af))
	} else {
		c.OK(R, "Apply:positive-control", p.pos(apply.Pos()), "the same analysis reports Apply's write to Result.Values")
	}
}

func c06Views(c *Ctx, p *Prog) {
	const R = "C06/R8"
	extT := p.Named("benchproc", "extractor")
	if extT == nil {
		c.Undecided(R, "anchor:extractor", "", "type not found")
		return
	}
	n := 0
	for _, fn := range p.Funcs("benchproc") {
		i := 0
		eachInstr(fn, func(_ *ssa.BasicBlock, in ssa.Instruction) {
			call, ok := in.(*ssa.Call)
			if !ok || call.Call.IsInvoke() || call.Call.StaticCallee() != nil {
				return
			}
			if !types.Identical(call.Call.Value.Type(), extT) {
				return
			}
			n++
			i++
			key := fmt.Sprintf("%s:extractor result#%d", fnName(fn), i)
			// follow the []byte value
			bad := ""
			seen := map[ssa.Value]bool{}
			var walk func(v ssa.Value)
			walk = func(v ssa.Value) {
				if seen[v] || bad != "" {
					return
				}
				seen[v] = true
				for _, r := range *v.Referrers() {
					switch x := r.(type) {
					case *ssa.Store:
						if x.Val == v {
							local := true
							for _, rt := range rootsOf(x.Addr) {
								if rt.Kind != rkLocal {
									local = false
								}
							}
							if al, ok := x.Addr.(*ssa.Alloc); ok && !al.Heap {
								local = true
							}
							if !local {
								bad = "stored into " + rootsStr(x.Addr)
							}
						}
					case *ssa.MapUpdate:
						if x.Value == v {
							bad = "stored as a map value"
						}
					case *ssa.Phi:
						walk(x)
					case *ssa.Slice:
						walk(x)
					case *ssa.MakeClosure:
						bad = "captured by a closure"
					case *ssa.Send:
						bad = "sent on a channel"
					}
				}
			}
			walk(call)
			c.Check(bad == "", R, key, p.pos(call.Pos()), "consumed immediately", "the byte slice an extractor returns is a view into the Result's reusable buffers, yet it is "+bad+": the remembered value changes when the reader overwrites the buffer, so a later comparison sees the wrong bytes")
		})
	}
	c.Floor(R, "calls through extractor values", n, 3)
}

// ---- R4 ----

func c06Exhaustive(c *Ctx, p *Prog) {
	const R = "C06/R4"
	fo := p.Fn("benchproc", "filterOp")
	if fo != nil {
		var all []string
		sc := p.Pkg("benchproc/internal/parse").Types.Scope()
		opT := p.Named("benchproc/internal/parse", "Op")
		for _, n := range sc.Names() {
			if k, ok := sc.Lookup(n).(*types.Const); ok && opT != nil && types.Identical(k.Type(), opT) {
				all = append(all, constKey(k.Val()))
			}
		}
		pans := panicSets(fo, func(v ssa.Value) bool { return v == fo.Params[0] })
		ok := len(pans) > 0
		for _, ps := range pans {
			for _, k := range all {
				if !(ps.Top && ps.Not[k]) {
					ok = false
				}
			}
		}
		c.Check(ok && len(all) >= 3, R, "combiner:all-ops", p.pos(fo.Pos()), fmt.Sprintf("every parse.Op constant (%d) has a case; only unknown values panic", len(all)), "some parse.Op constant falls through to the combiner's panic")
	}
	// type switch over parse.Filter implementers in NewFilter's compiler
	iface := p.Named("benchproc/internal/parse", "Filter")
	if iface == nil {
		c.Undecided(R, "anchor:parse.Filter", "", "interface not found")
		return
	}
	it := iface.Underlying().(*types.Interface)
	var impls []string
	sc := p.Pkg("benchproc/internal/parse").Types.Scope()
	for _, n := range sc.Names() {
		tn, ok := sc.Lookup(n).(*types.TypeName)
		if !ok {
			continue
		}
		if _, isI := tn.Type().Underlying().(*types.Interface); isI {
			continue
		}
		if types.Implements(types.NewPointer(tn.Type()), it) || types.Implements(tn.Type(), it) {
			impls = append(impls, tn.Name())
		}
	}
	handled := map[string]bool{}
	for _, fn := range p.Funcs("benchproc") {
		eachInstr(fn, func(_ *ssa.BasicBlock, in ssa.Instruction) {
			if ta, ok := in.(*ssa.TypeAssert); ok && types.Identical(ta.X.Type(), iface) {
				handled[recvName(ta.AssertedType)] = true
			}
		})
	}
	var missing []string
	for _, n := range impls {
		if !handled[n] {
			missing = append(missing, n)
		}
	}
	c.Check(len(missing) == 0 && len(impls) >= 2, R, "compiler:all-node-types", "", fmt.Sprintf("the compiler's type switch covers %v", impls), fmt.Sprintf("filter node types %v are not handled by the compiler's type switch (panic at run time)", missing))
}

// ---- R5 ----

func c06Apply(c *Ctx, p *Prog) {
	const R = "C06/R5"
	fn := p.Method("benchproc", "Match", "Apply")
	if fn == nil {
		c.Undecided(R, "anchor:Match.Apply", "", "method not found")
		return
	}
	site := p.pos(fn.Pos())
	valuesF := p.Field("benchfmt", "Result", "Values")
	loops := naturalLoops(fn)
	if len(loops) != 1 {
		c.Undecided(R, "Apply:loop", site, "expected one compaction loop")
		return
	}
	lp := loops[0]
	// the write index is the loop variable the result is cut to after the loop; the read index is the other one
	var jPhi, iPhi *ssa.Phi
	var ints []*ssa.Phi
	for _, in := range lp.Header.Instrs {
		if phi, ok := in.(*ssa.Phi); ok && isInteger(phi.Type()) {
			ints = append(ints, phi)
		}
	}
	eachInstr(fn, func(b *ssa.BasicBlock, in ssa.Instruction) {
		if st, ok := in.(*ssa.Store); ok && !lp.Blocks[b] {
			if f, _ := fieldOfAddr(st.Addr); f == valuesF {
				if sl, ok := st.Val.(*ssa.Slice); ok && sl.Low == nil {
					for _, phi := range ints {
						if sl.High == phi {
							jPhi = phi
						}
					}
				}
			}
		}
	})
	for _, phi := range ints {
		if phi != jPhi {
			iPhi = phi
		}
	}
	if jPhi == nil && len(ints) == 1 {
		// the other in-place idiom: kept := values[:0]; kept = append(kept, values[i]); values = kept
		c06ApplyAppend(c, p, fn, lp, ints[0], valuesF)
		return
	}
	if jPhi == nil || iPhi == nil || len(ints) != 2 {
		c.Undecided(R, "Apply:indices", site, "read/write indices not recognised")
		return
	}
	start := loopBodyStart(lp)
	outs, why := e6Enumerate(func() *e6Interp {
		return &e6Interp{PureCall: func(f *types.Func) bool { return f.Name() == "Test" }}
	}, start, lp.Header, iterStop(lp, start), 64)
	if why != "" {
		c.Undecided(R, "Apply:table", site, why)
		return
	}
	n := 0
	for _, o := range outs {
		var test *bool
		var testArg *Sym
		for _, k := range o.AtomKeys() {
			v := o.Assign[k]
			_ = v
			s := o.AtomSyms[k]
			if s.Op == "call" && strings.Contains(s.Name, "Test") {
				vv := v
				test = &vv
				testArg = s.Args[len(s.Args)-1]
			}
			_ = k
		}
		if o.Term != "exit" || o.Exit != lp.Header {
			continue // leaves the loop
		}
		n++
		var iNext *Sym
		plusOne := false
		for j, pr := range lp.Header.Preds {
			if pr == o.ExitFrom {
				iNext = o.Val(iPhi.Edges[j])
				// range loops compute index+1 in the loop head: recognise it on the SSA value itself
				if bo, ok := iPhi.Edges[j].(*ssa.BinOp); ok && bo.Op == token.ADD && bo.X == iPhi {
					if k, ok := constInt(bo.Y); ok && k == 1 {
						plusOne = true
					}
				}
			}
		}
		if b, off, ok := linDecomp(iNext); !plusOne && (!ok || b == nil || b.String() != o.Val(iPhi).String() || off != 1) {
			c.Bad(R, fmt.Sprintf("Apply:read-index#%d", n), site, "on some path the read index does not advance by exactly one ("+truncate(iNext.String(), 80)+" when "+truncate(o.AssignStr(), 120)+"): measurements are skipped without being tested, so a matching measurement can be dropped")
			continue
		}
		if test == nil {
			c.Bad(R, fmt.Sprintf("Apply:untested#%d", n), site, "an iteration path does not ask Test about the visited measurement ("+truncate(o.AssignStr(), 120)+")")
			continue
		}
		var store *e6Action
		for i := range o.Actions {
			if o.Actions[i].Kind == "store" && o.Actions[i].Args[0].Op == "indexaddr" && o.Actions[i].Args[0].Args[0].IsFieldLoad(valuesF) {
				store = &o.Actions[i]
			}
		}
		var jNext *Sym
		for j, pr := range lp.Header.Preds {
			if pr == o.ExitFrom {
				jNext = o.Val(jPhi.Edges[j])
			}
		}
		jCur := o.Val(jPhi)
		iCur := testArg
		key := fmt.Sprintf("Apply[Test(i)=%v]", *test)
		var errs []string
		visited := false
		if b, off, ok := linDecomp(iCur); ok && b != nil && b.String() == o.Val(iPhi).String() && off == 0 {
			visited = true
		}
		for j := range lp.Header.Preds {
			// range loops: the element index is the head's index+1
			if bo, ok := iPhi.Edges[j].(*ssa.BinOp); ok && iCur.String() == o.Val(bo).String() {
				visited = true
			}
		}
		if !visited {
			errs = append(errs, "Test is not asked about the element being visited")
		}
		if *test {
			if store == nil {
				errs = append(errs, "a matching measurement is not kept")
			} else {
				if store.Args[0].Args[1].String() != jCur.String() {
					errs = append(errs, "the kept measurement is not written at the write index")
				}
				// value is element i
				if !strings.Contains(store.Args[1].String(), iCur.String()) && !strings.Contains(store.Args[1].String(), "next") {
					errs = append(errs, "the value kept is not the visited measurement")
				}
			}
			b, off, ok := linDecomp(jNext)
			if !ok || b == nil || b.String() != jCur.String() || off != 1 {
				errs = append(errs, "the write index does not advance by one after keeping a measurement")
			}
		} else {
			if store != nil {
				errs = append(errs, "a non-matching measurement is written into the result")
			}
			if jNext == nil || jNext.String() != jCur.String() {
				errs = append(errs, "the write index advances for a dropped measurement")
			}
		}
		if len(errs) > 0 {
			c.Bad(R, key, site, strings.Join(errs, "; "))
		} else {
			c.OK(R, key, site, "conforms")
		}
	}
	c.Floor(R, "compaction cases", n, 2)
	// reslice to j after the loop
	okRes := false
	eachInstr(fn, func(b *ssa.BasicBlock, in ssa.Instruction) {
		if st, ok := in.(*ssa.Store); ok && !lp.Blocks[b] {
			if f, _ := fieldOfAddr(st.Addr); f == valuesF {
				if sl, ok := st.Val.(*ssa.Slice); ok && sl.High == jPhi && sl.Low == nil {
					okRes = true
				}
			}
		}
	})
	c.Check(okRes, R, "Apply:reslice", site, "Values is resliced to the write index", "after compaction Values is not cut to the number of kept measurements")
}

// ---- R6 ----

func c06Conjoin(c *Ctx, p *Prog, R string) {
	fn := p.Method("benchproc", "ProjectionParser", "Parse")
	matchF := p.Field("benchproc", "Filter", "match")
	fo := p.Fn("benchproc", "filterOp")
	if fn == nil || matchF == nil || fo == nil {
		c.Undecided(R, "anchor:ProjectionParser.Parse", "", "not found")
		return
	}
	n := 0
	// the stores to the caller's filter: in Parse itself, or in a function of the package that Parse calls to do it
	type site struct {
		st *ssa.Store
		at ssa.Instruction // where, in Parse, the filter changes
	}
	var sites []site
	for _, st := range storesToField(fn, matchF) {
		sites = append(sites, site{st, st})
	}
	eachInstr(fn, func(_ *ssa.BasicBlock, in ssa.Instruction) {
		call, ok := in.(*ssa.Call)
		if !ok {
			return
		}
		g := call.Call.StaticCallee()
		if g == nil || g.Pkg != fn.Pkg || g.Blocks == nil || g == fo {
			return
		}
		for _, st := range storesToField(g, matchF) {
			sites = append(sites, site{st, in})
		}
	})
	for _, s := range sites {
		st := s.st
		n++
		// the caller's filter is touched only once the whole expression is known to be valid: no error return is
		// reachable after the store
		errAfter := false
		for b := range reachFrom(s.at.Block(), nil) {
			ret, ok := b.Instrs[len(b.Instrs)-1].(*ssa.Return)
			if !ok || len(ret.Results) == 0 {
				continue
			}
			if k, isK := retLast(ret).(*ssa.Const); !isK || !k.IsNil() {
				errAfter = true
			}
		}
		c.Check(!errAfter, R, fmt.Sprintf("Parse:filter-store#%d:after-validation", n), p.pos(st.Pos()), "the caller's filter is changed only after the whole projection was validated",
			"the caller's filter is narrowed before the rest of the expression has been validated: when a later field is rejected, Parse returns an error but the filter stays restricted to the earlier field's value list for every later use")
		call, ok := st.Val.(*ssa.Call)
		okOp, okKeep := false, false
		if ok && call.Call.StaticCallee() == fo {
			if k, isK := call.Call.Args[0].(*ssa.Const); isK {
				if and, ok := p.Obj("benchproc/internal/parse", "OpAnd").(*types.Const); ok && constant.Compare(k.Value, token.EQL, and.Val()) {
					okOp = true
				}
			}
			// operand list contains the caller's filter: an append(..., load filter.match)
			seen := map[ssa.Value]bool{}
			var walk func(v ssa.Value)
			walk = func(v ssa.Value) {
				if seen[v] {
					return
				}
				seen[v] = true
				switch x := v.(type) {
				case *ssa.Call:
					if b, isB := x.Call.Value.(*ssa.Builtin); isB && b.Name() == "append" {
						walk(x.Call.Args[0])
						if len(x.Call.Args) > 1 {
							walk(x.Call.Args[1])
						}
					}
				case *ssa.Phi:
					for _, e := range x.Edges {
						walk(e)
					}
				case *ssa.Slice:
					if al, isAl := x.X.(*ssa.Alloc); isAl {
						for _, r := range *al.Referrers() {
							if ia, isIA := r.(*ssa.IndexAddr); isIA {
								for _, r2 := range *ia.Referrers() {
									if s2, isSt := r2.(*ssa.Store); isSt {
										if f, _ := loadOfField(s2.Val); f == matchF {
											okKeep = true
										}
									}
								}
							}
						}
					}
				}
			}
			walk(call.Call.Args[1])
		}
		c.Check(okOp && okKeep, R, "Parse:compose-filter", p.pos(st.Pos()), "membership tests are AND-ed with the caller's filter", fmt.Sprintf("a fixed value list does not conjoin with the caller's filter (AND combiner: %v, caller's filter kept: %v): results are kept that the filter rejects, or the list replaces the filter", okOp, okKeep))
	}
	c.Floor(R, "filter compositions in Parse", n, 1)
}

// ---- R7 ----

func c06Grammar(c *Ctx, p *Prog) {
	const R = "C06/R7"
	opF := p.Field("benchproc/internal/parse", "FilterOp", "Op")
	exprsF := p.Field("benchproc/internal/parse", "FilterOp", "Exprs")
	kindF := p.Field("benchproc/internal/parse", "tok", "Kind")
	if opF == nil || kindF == nil {
		c.Undecided(R, "anchor:FilterOp.Op", "", "not found")
		return
	}
	opNames := map[string]string{}
	for _, n := range []string{"OpAnd", "OpOr", "OpNot"} {
		if k, ok := p.Obj("benchproc/internal/parse", n).(*types.Const); ok {
			opNames[constKey(k.Val())] = n
		}
	}
	type site struct {
		fn    string
		op    string
		kinds string
		nKids string
	}
	var found []string
	for _, fn := range p.Funcs("benchproc/internal/parse") {
		stores := storesToField(fn, opF)
		if len(stores) == 0 {
			continue
		}
		// token kind facts: track Kind of the first token read in this function
		var firstTok ssa.Value
		eachInstr(fn, func(_ *ssa.BasicBlock, in ssa.Instruction) {
			if firstTok != nil {
				return
			}
			if call, ok := in.(*ssa.Call); ok {
				if sc := call.Call.StaticCallee(); sc != nil && sc.Signature.Results().Len() == 2 && recvName(sc.Signature.Results().At(0).Type()) == "tok" {
					firstTok = call
				}
			}
		})
		facts := map[*ssa.BasicBlock]constSet{}
		if firstTok != nil {
			facts = constFacts(fn, func(v ssa.Value) bool {
				f, base := loadOfField(v)
				if f != kindF {
					return false
				}
				// base is extract #0 of firstTok, or its spill slot
				if ex, ok := base.(*ssa.Extract); ok && ex.Tuple == firstTok {
					return true
				}
				if al, ok := base.(*ssa.Alloc); ok {
					for _, r := range *al.Referrers() {
						if st, ok := r.(*ssa.Store); ok && st.Addr == al {
							if ex, ok := st.Val.(*ssa.Extract); ok && ex.Tuple == firstTok {
								return true
							}
						}
					}
				}
				return false
			})
		}
		for _, st := range stores {
			k, ok := st.Val.(*ssa.Const)
			if !ok {
				// the operator is a parameter of a node-building helper: one construction per call site, with the
				// operator given there
				if prm, isP := st.Val.(*ssa.Parameter); isP {
					pi := -1
					for i, q := range fn.Params {
						if q == prm {
							pi = i
						}
					}
					for _, g := range p.Funcs("benchproc/internal/parse") {
						eachInstr(g, func(_ *ssa.BasicBlock, in ssa.Instruction) {
							call, isC := in.(ssa.CallInstruction)
							if !isC || call.Common().StaticCallee() != fn || pi < 0 || pi >= len(call.Common().Args) {
								return
							}
							if kc, isK := call.Common().Args[pi].(*ssa.Const); isK {
								found = append(found, fmt.Sprintf("%s[children many]", opNames[constKey(kc.Value)]))
							} else {
								found = append(found, "?[children many]")
							}
						})
					}
				}
				continue
			}
			op := opNames[constKey(k.Value)]
			kinds := ""
			if fs, ok := facts[st.Block()]; ok && !fs.Top && !fs.Bot && len(stores) > 1 {
				var ks []string
				for x := range fs.In {
					ks = append(ks, x)
				}
				sort.Strings(ks)
				kinds = strings.Join(ks, "")
			}
			// children: nil constant, or a one-element literal, or a collected slice
			kids := "many"
			_, base := fieldOfAddr(st.Addr)
			for _, r := range *base.Referrers() {
				if fa, ok := r.(*ssa.FieldAddr); ok {
					if f, _ := fieldOfAddr(fa); f == exprsF {
						for _, r2 := range *fa.Referrers() {
							if s2, ok := r2.(*ssa.Store); ok {
								if cst, ok := s2.Val.(*ssa.Const); ok && cst.IsNil() {
									kids = "none"
								}
								if sl, ok := s2.Val.(*ssa.Slice); ok {
									if al, ok := sl.X.(*ssa.Alloc); ok {
										if at, ok := al.Type().(*types.Pointer).Elem().(*types.Array); ok && at.Len() == 1 {
											kids = "one"
										}
									}
								}
							}
						}
					}
				}
			}
			// a node with collected children is identified by its operator alone (which production collects them, and
			// whether the list is built in the production or in a helper it calls, is free); '*' and '-' are identified
			// by the token that selects them
			if kids == "many" {
				found = append(found, fmt.Sprintf("%s[children many]", op))
			} else {
				found = append(found, fmt.Sprintf("%s[first token %q, children %s]", op, kinds, kids))
			}
		}
	}
	sort.Strings(found)
	want := []string{
		`OpAnd[children many]`,
		`OpAnd[first token "*", children none]`,
		`OpNot[first token "-", children one]`,
		`OpOr[children many]`,
		`OpOr[children many]`,
	}
	c.Check(strings.Join(found, "\n") == strings.Join(want, "\n"), R, "grammar:node-construction", "", "each production builds the documented node: "+strings.Join(found, "; "),
		"the parser's productions do not build the documented nodes:\n  found:    "+strings.Join(found, "; ")+"\n  expected: "+strings.Join(want, "; "))
}

func c06Memo(c *Ctx, p *Prog) {
	const R = "C06/R9"
	nf := p.Fn("benchproc", "NewFilter")
	if nf == nil {
		c.Undecided(R, "anchor:NewFilter", "", "not found")
		return
	}
	// functions on the match path: NewFilter, its closures (transitively) and what they call inside benchproc
	var roots []*ssa.Function
	var addAnon func(f *ssa.Function)
	addAnon = func(f *ssa.Function) {
		roots = append(roots, f)
		for _, a := range f.AnonFuncs {
			addAnon(a)
		}
	}
	addAnon(nf)
	if m := p.Method("benchproc", "Filter", "Match"); m != nil {
		roots = append(roots, m)
	}
	reach := staticReach(roots, bprocPkg)
	inReach := map[*ssa.Function]bool{}
	for _, f := range reach {
		inReach[f] = true
	}
	for _, f := range roots {
		inReach[f] = true
	}
	var fns []*ssa.Function
	for f := range inReach {
		fns = append(fns, f)
	}
	sort.Slice(fns, func(i, j int) bool { return fns[i].String() < fns[j].String() })
	n := checkMemoSites(c, p, R, findMemoSites(fns), nil)
	if n == 0 {
		c.OK(R, "filter:no-cache", p.pos(nf.Pos()), fmt.Sprintf("no cache store in the %d functions on the match path", len(fns)))
	}
	// positive control: the detector sees the tidy cache
	if p.HasPkg("benchunit") {
		ctl := findMemoSites(p.Funcs("benchunit"))
		c.Check(len(ctl) >= 1, R, "control:tidy-cache-detected", "", "the cache detector finds the unit-tidying cache", "the cache detector no longer recognises the unit-tidying cache (positive control)")
	}
}

func evalBoolOnce(s *Sym, decide func(*Sym) (bool, bool)) (bool, bool) {
	if b, ok := s.boolConst(); ok {
		return b, true
	}
	if decide != nil {
		return decide(s)
	}
	return false, false
}

// c06Leaf: the leaf test of a filter: with a regexp the verdict is the regexp's on the whole value (also the empty
// value of an absent key: ^$, .*, (x)? match it), without one it is equality with the literal; nothing else about
// the value decides.
func c06Leaf(c *Ctx, p *Prog) {
	const R = "C06/R11"
	n := 0
	for _, name := range []string{"Match", "MatchString"} {
		fn := p.Method("benchproc/internal/parse", "FilterMatch", name)
		if fn == nil {
			c.Undecided(R, "anchor:FilterMatch."+name, "", "not found")
			continue
		}
		site := p.pos(fn.Pos())
		mk := func() *e6Interp {
			return &e6Interp{PureCall: func(f *types.Func) bool { return true }, Inline: func(f *ssa.Function) bool {
				// small predicates of the node type ("is this a literal term?") are evaluated in place
				return f.Pkg != nil && f.Pkg.Pkg.Path() == modPath+"/benchproc/internal/parse" && f.Signature.Recv() != nil && recvName(f.Signature.Recv().Type()) == "FilterMatch" && len(naturalLoops(f)) == 0 && len(f.Blocks) <= 4 && f.Name() != "Match" && f.Name() != "MatchString"
			}}
		}
		outs, why := e6Enumerate(mk, fn.Blocks[0], nil, nil, 256)
		if why != "" {
			c.Undecided(R, "FilterMatch."+name, site, why)
			continue
		}
		for _, o := range outs {
			if o.Term != "return" || len(o.Results) != 1 {
				continue
			}
			n++
			hasRe := "?"
			other := ""
			for _, k := range o.AtomKeys() {
				v := o.Assign[k]
				_ = v
				s := o.AtomSyms[k]
				if s.Op == "binop" && (s.Tok == token.EQL || s.Tok == token.NEQ) && strings.Contains(s.Args[0].String(), ".Regexp") && s.Args[1].isConst() && s.Args[1].IsNil {
					hasRe = fmt.Sprint(v == (s.Tok == token.NEQ))
					continue
				}
				other = k
			}
			res := o.Results[0].String()
			key := fmt.Sprintf("FilterMatch.%s[regexp=%s]#%d", name, hasRe, n)
			switch {
			case other != "":
				c.Bad(R, key, site, "the leaf verdict depends on "+truncate(other, 100)+", not only on whether the term is a regexp: for a result that lacks the key (empty value) a regexp that matches the empty string — /^(1)?$/, /^$/, /.*/ — gets the wrong verdict, so terms over optional keys select the wrong results")
			case hasRe == "true":
				c.Check(strings.Contains(res, "regexp.Regexp).Match") && strings.Contains(res, "param:value"), R, key, site, "a regexp term is decided by the regexp on the value", "a regexp term is not decided by matching the regexp against the value: "+truncate(res, 100))
			case hasRe == "false":
				c.Check(strings.Contains(res, ".Lit") && strings.Contains(res, "param:value") && strings.Contains(res, "=="), R, key, site, "a literal term is decided by equality with the value", "a literal term is not decided by equality of the literal and the value: "+truncate(res, 100))
			default:
				c.Bad(R, key, site, "the leaf does not distinguish regexp terms from literal terms")
			}
		}
	}
	c.Floor(R, "leaf verdict paths", n, 4)
}

// c06ApplyAppend: the compaction written with append onto the emptied slice itself.
func c06ApplyAppend(c *Ctx, p *Prog, fn *ssa.Function, lp *loopInfo, iPhi *ssa.Phi, valuesF *types.Var) {
	const R = "C06/R5"
	site := p.pos(fn.Pos())
	var kPhi *ssa.Phi
	for _, in := range lp.Header.Instrs {
		if phi, ok := in.(*ssa.Phi); ok {
			if _, isSl := phi.Type().Underlying().(*types.Slice); isSl {
				kPhi = phi
			}
		}
	}
	if kPhi == nil {
		c.Undecided(R, "Apply:indices", site, "read/write indices not recognised")
		return
	}
	// starts as values[:0], ends up stored into values
	okInit, okFinal := false, false
	for j, pr := range lp.Header.Preds {
		if lp.Blocks[pr] {
			continue
		}
		if sl, ok := kPhi.Edges[j].(*ssa.Slice); ok && sl.Low == nil && sl.High != nil {
			if k, ok := constInt(sl.High); ok && k == 0 {
				if f, _ := loadOfField(sl.X); f == valuesF {
					okInit = true
				}
			}
		}
	}
	eachInstr(fn, func(b *ssa.BasicBlock, in ssa.Instruction) {
		if st, ok := in.(*ssa.Store); ok && !lp.Blocks[b] {
			if f, _ := fieldOfAddr(st.Addr); f == valuesF && st.Val == ssa.Value(kPhi) {
				okFinal = true
			}
		}
	})
	c.Check(okInit && okFinal, R, "Apply:kept-slice", site, "the kept slice starts as values[:0] and becomes the result's values", "the slice the kept measurements are appended to does not start as the emptied values slice, or is not stored back as the result's values")
	start := loopBodyStart(lp)
	outs, why := e6Enumerate(func() *e6Interp {
		return &e6Interp{PureCall: func(f *types.Func) bool { return f.Name() == "Test" }}
	}, start, lp.Header, iterStop(lp, start), 64)
	if why != "" {
		c.Undecided(R, "Apply:table", site, why)
		return
	}
	n := 0
	for _, o := range outs {
		if o.Term != "exit" || o.Exit != lp.Header {
			continue
		}
		var test *bool
		var testArg *Sym
		for _, k := range o.AtomKeys() {
			v := o.Assign[k]
			_ = v
			if s := o.AtomSyms[k]; s.Op == "call" && strings.Contains(s.Name, "Test") {
				vv := v
				test = &vv
				testArg = s.Args[len(s.Args)-1]
			}
		}
		n++
		plusOne := false
		var kNext *Sym
		for j, pr := range lp.Header.Preds {
			if pr == o.ExitFrom {
				if bo, ok := iPhi.Edges[j].(*ssa.BinOp); ok && bo.Op == token.ADD && bo.X == ssa.Value(iPhi) {
					if k, ok := constInt(bo.Y); ok && k == 1 {
						plusOne = true
					}
				}
				if b, off, ok := linDecomp(o.Val(iPhi.Edges[j])); ok && b != nil && b.String() == o.Val(iPhi).String() && off == 1 {
					plusOne = true
				}
				kNext = o.Val(kPhi.Edges[j])
			}
		}
		if !plusOne {
			c.Bad(R, fmt.Sprintf("Apply:read-index#%d", n), site, "on some path the read index does not advance by exactly one: measurements are skipped without being tested, so a matching measurement can be dropped")
			continue
		}
		if test == nil {
			c.Bad(R, fmt.Sprintf("Apply:untested#%d", n), site, "an iteration path does not ask Test about the visited measurement ("+truncate(o.AssignStr(), 120)+")")
			continue
		}
		key := fmt.Sprintf("Apply[Test(i)=%v]", *test)
		kCur := o.Val(kPhi)
		var errs []string
		if *test {
			if kNext == nil || kNext.Op != "call" || kNext.Name != "append" || len(kNext.Args) < 2 || kNext.Args[0].String() != kCur.String() {
				errs = append(errs, "a matching measurement is not appended to the kept slice")
			} else {
				visited := false
				for _, e := range kNext.Args[1:] {
					if e.Op == "slice" && len(e.Args) > 0 {
						// the variadic array: what was stored into it on this path
						arr := e.Args[0].String()
						for k, v := range o.Mem {
							if strings.Contains(k, arr) && strings.Contains(v.String(), testArg.String()) && v.MentionsField(valuesF) {
								visited = true
							}
						}
					} else if strings.Contains(e.String(), testArg.String()) && e.MentionsField(valuesF) {
						visited = true
					}
				}
				if !visited && !strings.Contains(kNext.String(), testArg.String()) {
					errs = append(errs, "the value kept is not the visited measurement")
				}
			}
		} else if kNext == nil || kNext.String() != kCur.String() {
			errs = append(errs, "a non-matching measurement is appended to the kept slice")
		}
		if len(errs) > 0 {
			c.Bad(R, key, site, strings.Join(errs, "; "))
		} else {
			c.OK(R, key, site, "conforms")
		}
	}
	c.Floor(R, "compaction cases", n, 2)
}

// c06FixedListSeesTheKey (C06/R15): the membership test of a fixed-order projection judges the value the key names, as
// a filter term on that key would: every extractor handed to the fixed-list filter constructor in makeProjection is a
// function of the result alone — a package function, a closure over constants, or what newExtractor(key) returns — and
// never reads the projection parser (whose exclusion lists change what "the full name" means as projections are added).
func c06FixedListSeesTheKey(c *Ctx, p *Prog) {
	const R = "C06/R15"
	mp := p.Method("benchproc", "ProjectionParser", "makeProjection")
	if mp == nil {
		c.Undecided(R, "anchor:makeProjection", "", "not found")
		return
	}
	isParser := func(t types.Type) bool {
		n := recvName(t)
		return n == "ProjectionParser" || n == "Projection"
	}
	// readsParser: f, or a function of the package it statically calls, touches a parser or projection value
	var readsParser func(f *ssa.Function, depth int) string
	readsParser = func(f *ssa.Function, depth int) string {
		if f == nil || f.Blocks == nil || depth > 3 {
			return ""
		}
		for _, fv := range f.FreeVars {
			t := fv.Type()
			if pt, ok := t.(*types.Pointer); ok && isParser(pt.Elem()) {
				return "captures " + fv.Name()
			}
			if isParser(t) {
				return "captures " + fv.Name()
			}
		}
		why := ""
		eachInstr(f, func(_ *ssa.BasicBlock, in ssa.Instruction) {
			if why != "" {
				return
			}
			if fa, ok := in.(*ssa.FieldAddr); ok && isParser(fa.X.Type()) {
				why = "reads the parser"
				if fld, _ := fieldOfAddr(fa); fld != nil {
					why = "reads the parser's " + fld.Name()
				}
			}
			if call, ok := in.(*ssa.Call); ok {
				if sc := call.Call.StaticCallee(); sc != nil && sc.Pkg == f.Pkg && sc != f {
					if w := readsParser(sc, depth+1); w != "" {
						why = w
					}
				}
			}
			if mc, ok := in.(*ssa.MakeClosure); ok {
				if w := readsParser(mc.Fn.(*ssa.Function), depth+1); w != "" {
					why = w
				}
			}
		})
		return why
	}
	n := 0
	for _, fn := range append([]*ssa.Function{mp}, mp.AnonFuncs...) {
		eachInstr(fn, func(_ *ssa.BasicBlock, in ssa.Instruction) {
			call, ok := in.(*ssa.Call)
			if !ok || call.Call.IsInvoke() {
				return
			}
			if _, isBuiltin := call.Call.Value.(*ssa.Builtin); isBuiltin {
				return
			}
			// the constructor of the fixed-list filter: the local closure, or a package function, that is given an
			// extractor
			if sc := call.Call.StaticCallee(); sc != nil && sc.Pkg != mp.Pkg {
				return
			}
			var arg ssa.Value
			for _, a := range call.Call.Args {
				if recvName(a.Type()) == "extractor" {
					arg = a
				}
			}
			if arg == nil {
				return
			}
			n++
			key := fmt.Sprintf("makeProjection:fixed-list-extractor#%d", n)
			if ct, ok := arg.(*ssa.ChangeType); ok {
				arg = ct.X
			}
			why := ""
			// a captured local: the one value stored in its cell stands for it
			if al, ok := loadAddr(arg).(*ssa.Alloc); ok {
				if sts := storesInto(al); len(sts) == 1 {
					arg = sts[0].Val
				}
			}
			if ct, ok := arg.(*ssa.ChangeType); ok {
				arg = ct.X
			}
			switch x := arg.(type) {
			case *ssa.Function:
				why = readsParser(x, 0)
			case *ssa.MakeClosure:
				why = readsParser(x.Fn.(*ssa.Function), 0)
				for _, b := range x.Bindings {
					t := b.Type()
					if pt, ok := t.(*types.Pointer); ok {
						t = pt.Elem()
					}
					if pt, ok := t.(*types.Pointer); ok {
						t = pt.Elem()
					}
					if isParser(t) {
						why = "captures the parser"
					}
				}
			case *ssa.Extract:
				if cc, ok := x.Tuple.(*ssa.Call); ok {
					why = readsParser(cc.Call.StaticCallee(), 0)
					if cc.Call.StaticCallee() == nil {
						why = "comes from a dynamic call"
					}
				}
			case *ssa.Call:
				why = readsParser(x.Call.StaticCallee(), 0)
				if x.Call.StaticCallee() == nil {
					why = "comes from a dynamic call"
				}
			default:
				why = "is not a function, a closure or the result of an extractor constructor"
			}
			c.Check(why == "", R, key, p.pos(call.Pos()), "the extractor given to the fixed-list test depends on the result alone",
				"the extractor given to the fixed-list membership test "+why+": what it returns for a result then depends on which other projections were parsed (the full name with their keys stripped), so key@(a b) keeps or removes results that a filter on the same key would treat the other way")
		})
	}
	c.Floor(R, "extractors handed to the fixed-list filter", n, 2)
}
