package main

import (
	"encoding/json"
	"flag"
	"fmt"
	"os"
	"sort"
	"strconv"
)

// checks maps property id to its check function.
var checks = map[string]func(c *Ctx){}

func register(id string, f func(c *Ctx)) { checks[id] = f }

func usage() {
	fmt.Fprintln(os.Stderr, "usage: perfcheck check <ID> [--tier quick|thorough] | replay <file> | list")
	os.Exit(2)
}

func main() {
	if len(os.Args) < 2 {
		usage()
	}
	switch os.Args[1] {
	case "list":
		var ids []string
		for id := range checks {
			ids = append(ids, id)
		}
		sort.Strings(ids)
		for _, id := range ids {
			fmt.Println(id)
		}
	case "maps":
		// debugging aid: classify every map range in the given packages
		c := newCtx("maps", "quick")
		p := mustLoad(c, loadOpts{}, os.Args[2:]...)
		var rels []string
		for r := range p.byRel {
			rels = append(rels, r)
		}
		sort.Strings(rels)
		fns := p.Funcs(rels...)
		eff := newEffects(p, fns)
		for _, fn := range fns {
			for _, mr := range classifyMapRanges(p, eff, fn) {
				fmt.Printf("%s  [%s]\n    patterns=%v\n", mr.Key, p.pos(mr.Pos), mr.Pattern)
				for _, r := range mr.Reasons {
					fmt.Printf("    SENSITIVE: %s\n", r)
				}
			}
		}
	case "sib":
		// debugging aid: compare the port's functions with strconv's
		c := newCtx("sib", "quick")
		p := mustLoad(c, loadOpts{}, "./benchfmt/internal/bytesconv", "strconv")
		pairs := sibPairs(p, "benchfmt/internal/bytesconv", "strconv")
		for _, pr := range pairs {
			if len(os.Args) > 2 && os.Args[2] != pr.name {
				continue
			}
			diff, n, why := sibCompare(pr.a, pr.b, sibNorm{pkgPaths: []string{modPath + "/benchfmt/internal/bytesconv"}}, sibNorm{pkgPaths: []string{"strconv"}}, 20000)
			switch {
			case why != "":
				fmt.Printf("%-28s UNDECIDED %s\n", pr.name, why)
			case diff != "":
				fmt.Printf("%-28s DIFFER (%d records) %s\n", pr.name, n, diff)
			default:
				fmt.Printf("%-28s agree (%d records)\n", pr.name, n)
			}
			if len(os.Args) > 3 {
				ta, _ := sibTables(pr.a, sibNorm{pkgPaths: []string{modPath + "/benchfmt/internal/bytesconv"}}, 20000)
				for k, rs := range ta {
					for _, r := range rs {
						fmt.Println("  A", k, r)
					}
				}
			}
		}
	case "check":
		if len(os.Args) < 3 {
			usage()
		}
		id := os.Args[2]
		fs := flag.NewFlagSet("check", flag.ExitOnError)
		tier := fs.String("tier", envOr("VERIF_TIER", "quick"), "quick or thorough")
		fs.Parse(os.Args[3:])
		os.Exit(runCheck(id, *tier, nil))
	case "replay":
		if len(os.Args) < 3 {
			usage()
		}
		b, err := os.ReadFile(os.Args[2])
		if err != nil {
			fmt.Fprintln(os.Stderr, err)
			os.Exit(2)
		}
		var rf replayFile
		if err := json.Unmarshal(b, &rf); err != nil {
			fmt.Fprintln(os.Stderr, err)
			os.Exit(2)
		}
		os.Exit(runCheck(rf.Property, "quick", &rf))
	default:
		usage()
	}
}

func envOr(k, d string) string {
	if v := os.Getenv(k); v != "" {
		return v
	}
	return d
}

func runCheck(id, tier string, only *replayFile) int {
	f, ok := checks[id]
	if !ok {
		fmt.Fprintf(os.Stderr, "perfcheck: no check for %q\n", id)
		return 2
	}
	if tier != "quick" && tier != "thorough" {
		fmt.Fprintf(os.Stderr, "perfcheck: bad tier %q\n", tier)
		return 2
	}
	c := newCtx(id, tier)
	if s := os.Getenv("VERIF_SEED"); s != "" {
		c.Seed, _ = strconv.ParseInt(s, 10, 64)
	}
	defer func() {
		if r := recover(); r != nil {
			// A panic in the checker is a checker failure, never a verdict.
			fmt.Fprintf(os.Stderr, "perfcheck: internal error while checking %s: %v\n", id, r)
			panic(r)
		}
	}()
	f(c)
	if tier == "thorough" && only == nil {
		// the same rules under other build configurations (build-tagged files, word size); a configuration
		// that does not load (cgo-only packages when cross-compiling) is skipped with a note
		for _, o := range []loadOpts{{env: []string{"GOARCH=386", "CGO_ENABLED=0"}}, {env: []string{"GOOS=windows", "CGO_ENABLED=0"}}, {env: []string{"GOOS=darwin", "GOARCH=arm64", "CGO_ENABLED=0"}}} {
			o := o
			c.override = &o
			func() {
				defer func() {
					if r := recover(); r != nil {
						if s, ok := r.(loadSkip); ok {
							c.Note("build configuration %v skipped: %s", o.env, string(s))
							return
						}
						panic(r)
					}
				}()
				f(c)
			}()
		}
		c.override = nil
	}
	if only != nil {
		// Replay: re-evaluate exactly one obligation on the current tree.
		for _, o := range c.obs {
			if o.Rule == only.Rule && o.Key == only.Key {
				fmt.Printf("replay %s %s key=%s: %s — %s (%s)\n", id, o.Rule, o.Key, o.Verdict, o.Detail, o.Site)
				if o.Verdict == vViolation {
					fmt.Printf("VIOLATION property=%s replay=%s\n", id, os.Args[2])
					return 1
				}
				if o.Verdict == vUndecided {
					return 2
				}
				return 0
			}
		}
		fmt.Printf("replay %s %s key=%s: obligation no longer exists on this tree\n", id, only.Rule, only.Key)
		return 2
	}
	return c.finish()
}
