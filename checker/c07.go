// c07.go: C07 — any string is expressible in expression syntax; bad expressions fail cleanly.
package main

import (
	"fmt"
	"go/token"
	"go/types"
	"sort"
	"strconv"
	"strings"

	"golang.org/x/tools/go/ssa"
)

func init() { register("C07", checkC07) }

const parsePkg = modPath + "/benchproc/internal/parse"
const bprocPkg = modPath + "/benchproc"

func checkC07(c *Ctx) {
	c.Rule("C07/R1", "escape scanning: a scanner that treats backslash specially tests the byte at its cursor and skips the escaped byte; it never decides by looking at the previous byte (which cannot tell \\\\\" from \\\")")
	c.Rule("C07/R2", "panic preconditions: every call of the extractor constructor excludes the keys it panics on; every call of the match constructor admits only token kinds it handles")
	c.Rule("C07/R3", "in the expression parser a nil node is returned only together with a tokenizer obtained from the error recorder")
	c.Rule("C07/R4", "quoting agrees with tokenizing: the characters that make a word be quoted include every character that ends or specially starts a bare word; operator sets equal the documented ones")
	c.Rule("C07/R5", "a scan cursor that can advance by more than one per iteration is compared with the end by >=, never by ==, before it is used as a bound")
	c.Rule("C07/R6", "sort-order sentinels: the order strings the projection compiler special-cases are exactly those the expression parser assigns; anything else goes through the named-order table or is rejected with an error")
	c.Rule("C07/R7", "space classification is applied to decoded runes, not to single bytes converted to runes")
	c.Rule("C07/R8", ".config in a filter and .unit in a projection are rejected with a syntax error")

	c.Rule("C07/R12", "any string is usable as a quoted literal: every token returned by the quoted-word scanner has the quoted-word kind or is the error token, independent of its text")
	c.Rule("C07/R20", "a projection field prints so that it reads back: in parse.Field.String no element of the fixed value list reaches the text except as quoteWord's result")
	c.Rule("C07/R19", "what the tokenizer skips as a space is what ends a bare word: the space recogniser, evaluated for sample first bytes (comparisons of the byte and unicode.IsSpace answered from the sample), returns a positive width exactly for the bytes unicode.IsSpace accepts")
	c.Rule("C07/R18", "an error's offset lies in the text: the position argument of every errorTracker.error call is a piece of the text, never a constant")
	c.Rule("C07/R17", "every field of a projection expression is validated: every path through an iteration of the loop over the parsed fields in ProjectionParser.Parse passes makeProjection")
	c.Rule("C07/R16", "quoted words: wherever a parser method accepts a token of kind word it accepts kind quoted-word to the same effect; the text of every quoted-word token is the first result of strconv.Unquote")
	c.Rule("C07/R15", "values and keywords: the match constructor allocates a match only under token kinds within {word, quoted word, regexp}; the word scanner produces the AND / OR keyword kinds exactly where the word == \"AND\" / \"OR\"")
	c.Rule("C07/R14", "never a panic by overrun: where the expression scanners test a position against the length of the text (i+g < len) every later read at that base stays within what was tested (no read at i+o with o > g, as happens when the index is stepped between the test and the read)")
	c.Rule("C07/R13", "never a hang: in the expression parsers a loop that reads tokens from a cursor advances the cursor on every path back to its head")
	c.Rule("C07/R11", "rejections are positioned: every error returned by NewFilter, ProjectionParser.Parse and their closures is nil, a *parse.SyntaxError built there, or passed on unchanged from ParseFilter/ParseProjection or a recursive call — never a helper's bare error")
	c.Rule("C07/R10", "token modes: the value tokenizer (the only place a leading '/' starts a regexp) is not reachable from the projection parser")
	c.Rule("C07/R9", "no error is overwritten unseen: in the parsers and in the filter/projection constructors an error produced by a call inside a loop is compared with nil (or returned) inside that loop, so an invalid operand that is not the last one is still rejected")
	p := mustLoad(c, loadOpts{}, "./benchproc", "./benchproc/internal/parse", "./storage/query", "./analysis/app")
	scanPkgs := []string{"benchproc/internal/parse", "benchproc", "storage/query", "analysis/app"}
	if c.Tier == "thorough" {
		p = mustLoad(c, loadOpts{}, "./...")
		scanPkgs = nil
		for rel := range p.byRel {
			scanPkgs = append(scanPkgs, rel)
		}
		sort.Strings(scanPkgs)
	}
	// positive controls
	ctl := mustLoad(c, loadOpts{dir: c.HomeDir + "/checker"}, "./testdata/lookbehind")
	nCtl1, nCtl5, nCtl9 := 0, 0, 0
	for _, fn := range ctl.Funcs("perfcheck/testdata/lookbehind") {
		l9, _ := lostLoopErrors(fn)
		nCtl9 += len(l9)
		for _, f := range findLookBehind(fn) {
			_ = f
			nCtl1++
		}
		nCtl5 += len(findCursorOverrun(fn))
	}
	if nCtl1 == 0 {
		c.Undecided("C07/R1", "positive-control", "", "the look-behind matcher no longer recognises its own positive example")
	} else {
		c.OK("C07/R1", "positive-control", "checker/testdata/lookbehind/lb.go", "matcher fires on the stored look-behind example")
	}
	if nCtl9 == 0 {
		c.Undecided("C07/R9", "positive-control", "", "the lost-loop-error matcher no longer recognises its own positive example")
	} else {
		c.OK("C07/R9", "positive-control", "checker/testdata/lookbehind/lb.go", "matcher fires on the stored last-error-only example")
	}
	if nCtl5 == 0 {
		c.Undecided("C07/R5", "positive-control", "", "the cursor-overrun matcher no longer recognises its own positive example")
	} else {
		c.OK("C07/R5", "positive-control", "checker/testdata/lookbehind/lb.go", "matcher fires on the stored overrun example")
	}

	// R1 / R5 / R7 over all scanners.
	nEsc := 0
	for _, fn := range p.Funcs(scanPkgs...) {
		lb := findLookBehind(fn)
		esc := countEscapeTests(fn)
		nEsc += esc
		if esc > 0 || len(lb) > 0 {
			key := fnName(fn) + ":escape-test"
			if len(lb) > 0 {
				c.Bad("C07/R1", key, p.pos(lb[0].Pos()), "a backslash escape is recognised by looking at the previous byte: `\"a\\\\\\\\\"` (a quoted word ending in an escaped backslash) is taken to be unterminated, so some strings cannot be written as quoted words")
			} else {
				c.OK("C07/R1", key, p.pos(fn.Pos()), fmt.Sprintf("%d backslash test(s), all on the cursor byte", esc))
			}
		}
		for i, ov := range findCursorOverrun(fn) {
			c.Bad("C07/R5", fmt.Sprintf("%s:cursor-overrun#%d", fnName(fn), i), p.pos(ov.Pos()), "the scan cursor can step by two (escape skip) and is then compared with the length by ==; with a trailing backslash it passes the end and the following slice expression panics")
		}
	}
	c.Floor("C07/R1", "backslash tests in scanners", nEsc, 4)
	// R5 obligations per loop with multi-step cursor
	nMulti := 0
	for _, fn := range p.Funcs(scanPkgs...) {
		nMulti += countMultiStepLoops(fn)
	}
	c.OK("C07/R5", "multi-step-cursor-loops", "", fmt.Sprintf("%d loops advance their cursor by more than one on some path; none compares it with == afterwards", nMulti))

	c07R2(c, p)
	c07R3(c, p)
	c07R4(c, p)
	c07R6(c, p)
	c07R7(c, p)
	c07LoopErrors(c, p)
	c07Modes(c, p)
	c07Positioned(c, p)
	c07QuotedKind(c, p)
	c07Progress(c, p)
	c07StaleGuards(c, p)
	c07ValuesAndKeywords(c, p)
	c07QuotedEverywhere(c, p)
	c07EveryPartMade(c, p, "C07/R17")
	c07ErrorPositions(c, p)
	c07SpaceAgrees(c, p)
	c07EveryWordQuoted(c, p)
}

// byteIndexOf: v is a byte read s[i] (string Lookup or load of IndexAddr); returns the index value.
func byteIndexOf(v ssa.Value) (idx ssa.Value, ok bool) {
	v = stripConv(v)
	if cv, isCv := v.(*ssa.Convert); isCv {
		v = cv.X
	}
	switch x := v.(type) {
	case *ssa.Lookup:
		if isString(x.X.Type()) {
			return x.Index, true
		}
	case *ssa.Index:
		if isString(x.X.Type()) {
			return x.Index, true
		}
	case *ssa.UnOp:
		if x.Op == token.MUL {
			if ia, ok := x.X.(*ssa.IndexAddr); ok {
				return ia.Index, true
			}
		}
	}
	return nil, false
}

func backslashCmp(in ssa.Instruction) (*ssa.BinOp, ssa.Value) {
	bo, ok := in.(*ssa.BinOp)
	if !ok || (bo.Op != token.EQL && bo.Op != token.NEQ) {
		return nil, nil
	}
	if n, ok := constInt(bo.Y); ok && n == '\\' {
		if idx, ok := byteIndexOf(bo.X); ok {
			return bo, idx
		}
	}
	if n, ok := constInt(bo.X); ok && n == '\\' {
		if idx, ok := byteIndexOf(bo.Y); ok {
			return bo, idx
		}
	}
	return nil, nil
}

func countEscapeTests(fn *ssa.Function) int {
	n := 0
	eachInstr(fn, func(_ *ssa.BasicBlock, in ssa.Instruction) {
		if bo, _ := backslashCmp(in); bo != nil {
			n++
		}
	})
	return n
}

// findLookBehind returns backslash comparisons whose index is cursor-k (k>0).
func findLookBehind(fn *ssa.Function) []*ssa.BinOp {
	var out []*ssa.BinOp
	eachInstr(fn, func(_ *ssa.BasicBlock, in ssa.Instruction) {
		bo, idx := backslashCmp(in)
		if bo == nil {
			return
		}
		if sub, ok := idx.(*ssa.BinOp); ok {
			if k, isC := constInt(sub.Y); isC && ((sub.Op == token.SUB && k > 0) || (sub.Op == token.ADD && k < 0)) {
				out = append(out, bo)
			}
		}
	})
	return out
}

// cursorLoops: loops with an integer header phi p and header condition p < len(x).
type cursorLoop struct {
	lp      *loopInfo
	phi     *ssa.Phi
	lenOf   ssa.Value
	maxStep int64
}

func cursorLoops(fn *ssa.Function) []cursorLoop {
	var out []cursorLoop
	for _, lp := range naturalLoops(fn) {
		for _, in := range lp.Header.Instrs {
			phi, ok := in.(*ssa.Phi)
			if !ok || !isInteger(phi.Type()) {
				continue
			}
			// find p < len(x) among comparisons in the loop
			var lenOf ssa.Value
			for b := range lp.Blocks {
				for _, in2 := range b.Instrs {
					if bo, ok := in2.(*ssa.BinOp); ok && bo.Op == token.LSS && bo.X == phi {
						if call, ok := bo.Y.(*ssa.Call); ok {
							if bi, ok := call.Call.Value.(*ssa.Builtin); ok && bi.Name() == "len" {
								lenOf = call.Call.Args[0]
							}
						}
					}
				}
			}
			if lenOf == nil {
				continue
			}
			start := loopBodyStart(lp)
			if start == nil {
				continue
			}
			outs, why := e6Enumerate(func() *e6Interp { return &e6Interp{} }, start, lp.Header, iterStop(lp, start), 256)
			if why != "" {
				continue
			}
			var max int64
			for _, o := range outs {
				if o.Term != "exit" || o.Exit != lp.Header {
					continue
				}
				for i, pr := range lp.Header.Preds {
					if pr == o.ExitFrom {
						nv := o.Val(phi.Edges[i])
						base, off, ok := linDecomp(nv)
						if ok && base != nil && base.String() == o.Val(phi).String() && off > max {
							max = off
						}
					}
				}
			}
			out = append(out, cursorLoop{lp, phi, lenOf, max})
		}
	}
	return out
}

func countMultiStepLoops(fn *ssa.Function) int {
	n := 0
	for _, cl := range cursorLoops(fn) {
		if cl.maxStep > 1 {
			n++
		}
	}
	return n
}

// findCursorOverrun: after a multi-step cursor loop, an == / != comparison of the cursor with len(x).
func findCursorOverrun(fn *ssa.Function) []*ssa.BinOp {
	var out []*ssa.BinOp
	for _, cl := range cursorLoops(fn) {
		if cl.maxStep <= 1 {
			continue
		}
		eachInstr(fn, func(b *ssa.BasicBlock, in ssa.Instruction) {
			if cl.lp.Blocks[b] {
				return
			}
			bo, ok := in.(*ssa.BinOp)
			if !ok || (bo.Op != token.EQL && bo.Op != token.NEQ) || bo.X != cl.phi {
				return
			}
			if call, ok := bo.Y.(*ssa.Call); ok {
				if bi, ok := call.Call.Value.(*ssa.Builtin); ok && bi.Name() == "len" && sameValue(call.Call.Args[0], cl.lenOf) {
					out = append(out, bo)
				}
			}
		})
	}
	return out
}

// ---- R2 / R8 ----

// panicSet computes, for a function and a tracked expression, the abstract value at its panic blocks.
func panicSets(fn *ssa.Function, tracked func(ssa.Value) bool) []constSet {
	facts := constFacts(fn, tracked)
	var out []constSet
	for _, b := range fn.Blocks {
		if _, ok := b.Instrs[len(b.Instrs)-1].(*ssa.Panic); ok {
			if !facts[b].Bot {
				out = append(out, facts[b])
			}
		}
	}
	return out
}

// safeAgainst reports whether a call-site state cannot reach the callee's panic state.
func safeAgainst(site, pan constSet) bool {
	if site.Bot {
		return true
	}
	if pan.Top {
		// panics for anything except pan.Not: the site must be confined to that set
		if site.Top {
			return false
		}
		for k := range site.In {
			if !pan.Not[k] {
				return false
			}
		}
		return true
	}
	// panics for pan.In
	if site.Top {
		for k := range pan.In {
			if !site.Not[k] {
				return false
			}
		}
		return true
	}
	for k := range site.In {
		if pan.In[k] {
			return false
		}
	}
	return true
}

func c07R2(c *Ctx, p *Prog) {
	const R = "C07/R2"
	// (a) extractor constructor: the function in benchproc returning (extractor, error) from a string key that can panic.
	extT := p.Named("benchproc", "extractor")
	var ctor *ssa.Function
	for _, fn := range p.Funcs("benchproc") {
		sig := fn.Signature
		if fn.Parent() == nil && sig.Recv() == nil && sig.Params().Len() == 1 && isString(sig.Params().At(0).Type()) && sig.Results().Len() == 2 && extT != nil && types.Identical(sig.Results().At(0).Type(), extT) {
			ctor = fn
		}
	}
	if ctor == nil {
		c.Undecided(R, "anchor:extractor constructor", "", "no func(string) (extractor, error) in package benchproc")
	} else {
		key := ctor.Params[0]
		pans := panicSets(ctor, func(v ssa.Value) bool { return isParamOrSpill(v, key) })
		if len(pans) == 0 {
			c.OK(R, "extractor-ctor:no-panic", p.pos(ctor.Pos()), "the extractor constructor has no reachable panic")
		}
		nCalls := 0
		for _, fn := range p.Funcs("benchproc") {
			eachInstr(fn, func(b *ssa.BasicBlock, in ssa.Instruction) {
				ci, ok := in.(ssa.CallInstruction)
				if !ok || ci.Common().StaticCallee() != ctor {
					return
				}
				nCalls++
				arg := ci.Common().Args[0]
				facts := constFacts(fn, func(v ssa.Value) bool { return sameValue(v, arg) })
				st := facts[b]
				k := fmt.Sprintf("%s:call extractor-ctor#%d", fnName(fn), nCalls)
				ok2 := true
				for _, ps := range pans {
					if !safeAgainst(st, ps) {
						ok2 = false
					}
				}
				if !ok2 {
					// a pass-through helper (a cache in front of the constructor) hands its own parameter on: what the key
					// can be is then decided at the helper's call sites
					if prm, isP := arg.(*ssa.Parameter); isP && prm.Parent() == fn {
						pi := -1
						for i, q := range fn.Params {
							if q == prm {
								pi = i
							}
						}
						nUp, okUp := 0, true
						for _, g := range p.Funcs("benchproc") {
							eachInstr(g, func(b2 *ssa.BasicBlock, in2 ssa.Instruction) {
								c2, isC := in2.(ssa.CallInstruction)
								if !isC || c2.Common().StaticCallee() != fn || pi < 0 || pi >= len(c2.Common().Args) {
									return
								}
								nUp++
								a2 := c2.Common().Args[pi]
								f2 := constFacts(g, func(v ssa.Value) bool { return sameValue(v, a2) })
								for _, ps := range pans {
									if !safeAgainst(f2[b2], ps) {
										okUp = false
									}
								}
							})
						}
						if nUp > 0 && okUp {
							ok2 = true
							st = constSet{Top: true, Not: map[string]bool{"(decided at the helper's call sites)": true}}
						}
					}
				}
				var pd []string
				for _, ps := range pans {
					pd = append(pd, ps.String())
				}
				c.Check(ok2, R, k, p.pos(in.Pos()), "key is "+st.String()+"; constructor panics for "+strings.Join(pd, "; "),
					"the extractor constructor can be reached with a key it panics on (key is "+st.String()+"; it panics for "+strings.Join(pd, "; ")+"): a bad expression would crash instead of returning a syntax error")
				// R8: the excluded special keys are rejected with an error where the property says so.
			})
		}
		c.Floor(R, "calls of the extractor constructor", nCalls, 2)
		c07R8(c, p, ctor, pans)
	}

	// (b) match constructor in package parse: method taking a tok and switching on its Kind with a panic default.
	tokT := p.Named("benchproc/internal/parse", "tok")
	kindF := p.Field("benchproc/internal/parse", "tok", "Kind")
	if tokT == nil || kindF == nil {
		c.Undecided(R, "anchor:tok.Kind", "", "token type not found")
		return
	}
	n := 0
	for _, callee := range p.Funcs("benchproc/internal/parse") {
		// parameters of type tok
		var tokParam *ssa.Parameter
		for _, pr := range callee.Params {
			if types.Identical(pr.Type(), tokT) {
				tokParam = pr
			}
		}
		if tokParam == nil {
			continue
		}
		pans := panicSets(callee, func(v ssa.Value) bool { return isKindOf(v, tokParam, kindF, callee) })
		if len(pans) == 0 {
			continue
		}
		argIdx := -1
		for i, pr := range callee.Params {
			if pr == tokParam {
				argIdx = i
			}
		}
		for _, fn := range p.Funcs("benchproc/internal/parse") {
			eachInstr(fn, func(b *ssa.BasicBlock, in ssa.Instruction) {
				ci, ok := in.(ssa.CallInstruction)
				if !ok || ci.Common().StaticCallee() != callee {
					return
				}
				n++
				arg := ci.Common().Args[argIdx]
				facts := constFacts(fn, func(v ssa.Value) bool { return isKindOfVal(v, arg, kindF) })
				st := facts[b]
				ok2 := true
				for _, ps := range pans {
					if !safeAgainst(st, ps) {
						ok2 = false
					}
				}
				k := fmt.Sprintf("%s:call %s#%d", fnName(fn), callee.Name(), n)
				c.Check(ok2, R, k, p.pos(in.Pos()), "token kind is "+st.String(), "the match constructor can be reached with a token kind it panics on (kind is "+st.String()+")")
			})
		}
	}
	c.Floor(R, "calls of the match constructor", n, 2)
}

// isParamOrSpill: v is the parameter itself or a load of the slot it was spilled to (captured parameters).
func isParamOrSpill(v ssa.Value, param *ssa.Parameter) bool {
	if v == param {
		return true
	}
	if la := loadAddr(v); la != nil {
		if al, ok := la.(*ssa.Alloc); ok {
			n, okp := 0, false
			for _, r := range *al.Referrers() {
				if st, ok := r.(*ssa.Store); ok && st.Addr == al {
					n++
					if st.Val == param {
						okp = true
					}
				}
			}
			return okp && n == 1
		}
	}
	return false
}

// isKindOf: v reads field Kind of the struct parameter (directly or through its spill slot).
func isKindOf(v ssa.Value, param *ssa.Parameter, kindF *types.Var, fn *ssa.Function) bool {
	f, base := loadOfField(v)
	if f != kindF {
		return false
	}
	if base == param {
		return true
	}
	if al, ok := base.(*ssa.Alloc); ok {
		// spill slot: an alloc that receives the parameter
		if refs := al.Referrers(); refs != nil {
			for _, r := range *refs {
				if st, ok := r.(*ssa.Store); ok && st.Addr == al && st.Val == param {
					return true
				}
			}
		}
	}
	return false
}

// isKindOfVal: v reads field Kind of the same struct value as arg.
func isKindOfVal(v, arg ssa.Value, kindF *types.Var) bool {
	f, base := loadOfField(v)
	if f != kindF {
		return false
	}
	if base == arg {
		return true
	}
	// arg is a load of an alloc; base is that alloc
	if la := loadAddr(arg); la != nil && la == base {
		return true
	}
	// arg is a value that was stored into alloc base
	if al, ok := base.(*ssa.Alloc); ok {
		if refs := al.Referrers(); refs != nil {
			for _, r := range *refs {
				if st, ok := r.(*ssa.Store); ok && st.Addr == al && st.Val == arg {
					return true
				}
			}
		}
	}
	return false
}

// c07R8: in each caller of the extractor constructor, the branch for a key the constructor panics on
// either is a dedicated handler or returns a non-nil error; specifically the filter compiler rejects ".config" and
// the projection compiler rejects ".unit".
func c07R8(c *Ctx, p *Prog, ctor *ssa.Function, pans []constSet) {
	const R = "C07/R8"
	want := map[string]string{} // caller kind -> key that must be rejected
	filterMatchT := p.Named("benchproc/internal/parse", "FilterMatch")
	fieldT := p.Named("benchproc/internal/parse", "Field")
	n := 0
	// pass-through helpers (a cache in front of the constructor): they hand their own parameter to the constructor
	passThrough := map[*ssa.Function]int{}
	for _, g := range p.Funcs("benchproc") {
		eachInstr(g, func(_ *ssa.BasicBlock, in ssa.Instruction) {
			if ci, ok := in.(ssa.CallInstruction); ok && ci.Common().StaticCallee() == ctor {
				if prm, isP := ci.Common().Args[0].(*ssa.Parameter); isP && prm.Parent() == g {
					for i, q := range g.Params {
						if q == prm {
							passThrough[g] = i
						}
					}
				}
			}
		})
	}
	for _, fn := range p.Funcs("benchproc") {
		if _, isPT := passThrough[fn]; isPT {
			continue
		}
		var arg ssa.Value
		eachInstr(fn, func(_ *ssa.BasicBlock, in ssa.Instruction) {
			ci, ok := in.(ssa.CallInstruction)
			if !ok {
				return
			}
			sc := ci.Common().StaticCallee()
			if sc == ctor {
				arg = ci.Common().Args[0]
			} else if i, isPT := passThrough[sc]; isPT && i < len(ci.Common().Args) {
				arg = ci.Common().Args[i]
			}
		})
		if arg == nil {
			continue
		}
		f, _ := loadOfField(arg)
		if f == nil {
			continue
		}
		var reject string
		switch {
		case filterMatchT != nil && fieldOwner(f) == filterMatchT.Obj():
			reject = ".config"
		case fieldT != nil && fieldOwner(f) == fieldT.Obj():
			reject = ".unit"
		default:
			continue
		}
		want[fnName(fn)] = reject
		facts := constFacts(fn, func(v ssa.Value) bool { return sameValue(v, arg) })
		found := false
		ok := true
		for _, b := range fn.Blocks {
			st := facts[b]
			if st.Bot || st.Top || len(st.In) != 1 || !st.In[reject] {
				continue
			}
			ret, isRet := b.Instrs[len(b.Instrs)-1].(*ssa.Return)
			if !isRet {
				continue
			}
			found = true
			last := retLast(ret)
			if !isNonNilValue(last) {
				ok = false
			}
		}
		n++
		k := fmt.Sprintf("%s:rejects %s", fnName(fn), reject)
		if !found {
			c.Bad(R, k, p.pos(fn.Pos()), "there is no return on the path where the key is "+reject+": it is not rejected here")
		} else {
			c.Check(ok, R, k, p.pos(fn.Pos()), reject+" is answered with a non-nil error", reject+" is answered without an error")
		}
	}
	c.Floor(R, "compilers that must reject a misplaced special key", n, 2)
}

func fieldOwner(f *types.Var) types.Object {
	// find the named struct type in the field's package that declares f
	if f.Pkg() == nil {
		return nil
	}
	sc := f.Pkg().Scope()
	for _, n := range sc.Names() {
		tn, ok := sc.Lookup(n).(*types.TypeName)
		if !ok {
			continue
		}
		st, ok := tn.Type().Underlying().(*types.Struct)
		if !ok {
			continue
		}
		for i := 0; i < st.NumFields(); i++ {
			if st.Field(i) == f {
				return tn
			}
		}
	}
	return nil
}

func c07R3(c *Ctx, p *Prog) {
	const R = "C07/R3"
	filterT := p.Named("benchproc/internal/parse", "Filter")
	tokzT := p.Named("benchproc/internal/parse", "tokenizer")
	errtF := p.Field("benchproc/internal/parse", "tokenizer", "errt")
	n := 0
	for _, fn := range p.Funcs("benchproc/internal/parse") {
		res := fn.Signature.Results()
		if res.Len() != 2 || filterT == nil || tokzT == nil || !types.Identical(res.At(0).Type(), filterT) || !types.Identical(res.At(1).Type(), tokzT) {
			continue
		}
		i := 0
		for _, b := range fn.Blocks {
			ret, ok := b.Instrs[len(b.Instrs)-1].(*ssa.Return)
			if !ok {
				continue
			}
			cst, isConst := ret.Results[0].(*ssa.Const)
			if !isConst || !cst.IsNil() {
				continue
			}
			n++
			i++
			k := fmt.Sprintf("%s:nil-return#%d", fnName(fn), i)
			c.Check(fromErrorRecorder(ret.Results[1], errtF), R, k, p.pos(ret.Pos()), "nil node returned with the error recorder's tokenizer",
				"a nil node is returned with an ordinary tokenizer: no error is recorded, and the caller dereferences or silently drops the term")
		}
	}
	c.Floor(R, "nil-node returns in the filter parser", n, 3)
}

// fromErrorRecorder: v is the tokenizer result of a function whose every return passes through errorTracker.error.
func fromErrorRecorder(v ssa.Value, errtF *types.Var) bool {
	var call *ssa.Call
	switch x := v.(type) {
	case *ssa.Call:
		call = x
	case *ssa.Extract:
		call, _ = x.Tuple.(*ssa.Call)
	}
	if call == nil {
		return false
	}
	callee := call.Call.StaticCallee()
	if callee == nil {
		return false
	}
	return recordsError(callee, 0)
}

// recordsError: every path of fn calls a method named error on the errorTracker (directly or via a callee that does).
func recordsError(fn *ssa.Function, depth int) bool {
	if depth > 3 || fn.Blocks == nil {
		return false
	}
	// the entry block must dominate... simple: some call in a block that dominates all returns
	var doms []*ssa.BasicBlock
	eachInstr(fn, func(b *ssa.BasicBlock, in ssa.Instruction) {
		if ci, ok := in.(*ssa.Call); ok {
			callee := ci.Call.StaticCallee()
			if callee == nil {
				return
			}
			if callee.Signature.Recv() != nil && recvName(callee.Signature.Recv().Type()) == "errorTracker" {
				doms = append(doms, b)
			} else if callee != fn && callee.Pkg == fn.Pkg && recordsError(callee, depth+1) {
				doms = append(doms, b)
			}
		}
	})
	if len(doms) == 0 {
		return false
	}
	for _, b := range fn.Blocks {
		if _, ok := b.Instrs[len(b.Instrs)-1].(*ssa.Return); ok {
			covered := false
			for _, d := range doms {
				if d.Dominates(b) {
					covered = true
				}
			}
			if !covered {
				return false
			}
		}
	}
	return true
}

// runeConsts collects the rune/byte constants a function compares its inputs with, and the classifier functions it calls.
func runeConsts(fn *ssa.Function) (consts map[string]bool, calls map[string]bool) {
	return runeConstsD(fn, 0)
}

// isCharPredicate: func(rune) bool or func(byte) bool declared in the package.
func isCharPredicate(f *ssa.Function, pkg *ssa.Package) bool {
	if f == nil || f.Blocks == nil || f.Pkg != pkg || f.Signature.Recv() != nil {
		return false
	}
	sig := f.Signature
	if sig.Params().Len() != 1 || sig.Results().Len() != 1 || !isBoolean(sig.Results().At(0).Type()) {
		return false
	}
	b, ok := sig.Params().At(0).Type().Underlying().(*types.Basic)
	return ok && (b.Kind() == types.Int32 || b.Kind() == types.Uint8)
}

func runeConstsD(fn *ssa.Function, depth int) (consts map[string]bool, calls map[string]bool) {
	consts, calls = map[string]bool{}, map[string]bool{}
	// a character predicate of the package that is called, or handed to a library scan (strings.ContainsFunc,
	// IndexFunc, ...), tests its characters on behalf of this function
	merge := func(g *ssa.Function) {
		if depth > 3 || g == fn || !isCharPredicate(g, fn.Pkg) {
			return
		}
		c2, k2 := runeConstsD(g, depth+1)
		for k := range c2 {
			consts[k] = true
		}
		for k := range k2 {
			calls[k] = true
		}
	}
	eachInstr(fn, func(_ *ssa.BasicBlock, in ssa.Instruction) {
		if call, ok := in.(*ssa.Call); ok {
			merge(call.Call.StaticCallee())
			for _, a := range call.Call.Args {
				if g, ok := a.(*ssa.Function); ok {
					merge(g)
					if isCharPredicate(g, fn.Pkg) {
						if o, ok := g.Object().(*types.Func); ok {
							calls[o.FullName()] = true
						}
					}
				}
			}
		}
		switch x := in.(type) {
		case *ssa.BinOp:
			if x.Op != token.EQL && x.Op != token.NEQ {
				return
			}
			for _, side := range []ssa.Value{x.X, x.Y} {
				if n, ok := constInt(side); ok {
					other := x.X
					if side == x.X {
						other = x.Y
					}
					if b, ok := other.Type().Underlying().(*types.Basic); ok && (b.Kind() == types.Int32 || b.Kind() == types.Uint8) {
						consts[string(rune(n))] = true
					}
				}
			}
		case *ssa.Call:
			if co := calleeObj(&x.Call); co != nil {
				// a cut set handed to strings/bytes.Trim*/IndexAny/ContainsAny tests each of its characters
				if co.Pkg() != nil && (co.Pkg().Path() == "strings" || co.Pkg().Path() == "bytes") {
					switch co.Name() {
					case "TrimLeft", "TrimRight", "Trim", "IndexAny", "LastIndexAny", "ContainsAny":
						if len(x.Call.Args) == 2 {
							if s, ok := constString(x.Call.Args[1]); ok {
								for _, r := range s {
									consts[string(r)] = true
								}
								return
							}
						}
					}
				}
				calls[co.FullName()] = true
			}
		}
	})
	return
}

func setStr(m map[string]bool) string {
	var ks []string
	for k := range m {
		ks = append(ks, fmt.Sprintf("%q", k))
	}
	sort.Strings(ks)
	return "{" + strings.Join(ks, " ") + "}"
}

func c07R4(c *Ctx, p *Prog) {
	const R = "C07/R4"
	pk := "benchproc/internal/parse"
	isOp := p.Fn(pk, "isOp")
	isStartOp := p.Fn(pk, "isStartOp")
	quote := p.Fn(pk, "quoteWord")
	if isOp == nil || isStartOp == nil || quote == nil {
		// role-based fallback would be: predicates func(rune) bool called by the tokenizer's word scanner
		c.Undecided(R, "anchor:isOp/isStartOp/quoteWord", "", "the tokenizer's character predicates or the quoting function were renamed")
		return
	}
	ops, _ := runeConsts(isOp)
	startC, startCalls := runeConsts(isStartOp)
	qC, qCalls := runeConsts(quote)
	wantOps := map[string]bool{"(": true, ")": true, ":": true, "@": true, ",": true}
	c.Check(setStr(ops) == setStr(wantOps), R, "operator-set", p.pos(isOp.Pos()), "operators are "+setStr(ops), "operator characters are "+setStr(ops)+", documented "+setStr(wantOps))
	if startCalls[isOp.Object().(*types.Func).FullName()] {
		for k := range ops {
			startC[k] = true
		}
	}
	wantStart := map[string]bool{"-": true, "*": true}
	for k := range wantOps {
		wantStart[k] = true
	}
	c.Check(setStr(startC) == setStr(wantStart), R, "start-operator-set", p.pos(isStartOp.Pos()), "start operators are "+setStr(startC), "start-of-word operators are "+setStr(startC)+", documented "+setStr(wantStart))
	// quoting trigger ⊇ specials
	qAll := map[string]bool{}
	for k := range qC {
		qAll[k] = true
	}
	if qCalls[isOp.Object().(*types.Func).FullName()] {
		for k := range ops {
			qAll[k] = true
		}
	}
	if qCalls[isStartOp.Object().(*types.Func).FullName()] {
		for k := range startC {
			qAll[k] = true
		}
	}
	var missing []string
	for k := range wantStart {
		if !qAll[k] {
			missing = append(missing, k)
		}
	}
	if !qAll["\""] {
		missing = append(missing, "\"")
	}
	if !qCalls["unicode.IsSpace"] {
		missing = append(missing, "<space>")
	}
	sort.Strings(missing)
	c.Check(len(missing) == 0, R, "quote-trigger", p.pos(quote.Pos()), "quoting is triggered by "+setStr(qAll)+" and unicode.IsSpace",
		fmt.Sprintf("words containing %q are printed unquoted although the tokenizer treats them specially", missing))
	// bare-word scanner terminators: the function(s) in parse that range over the query and call isOp
	n := 0
	// predicates that belong to the quoting side (called by quoteWord or handed by it to a library scan)
	quoting := map[*ssa.Function]bool{}
	eachInstr(quote, func(_ *ssa.BasicBlock, in ssa.Instruction) {
		if call, ok := in.(*ssa.Call); ok {
			if sc := call.Call.StaticCallee(); sc != nil {
				quoting[sc] = true
			}
			for _, a := range call.Call.Args {
				if f, ok := a.(*ssa.Function); ok {
					quoting[f] = true
				}
			}
		}
	})
	for _, fn := range p.Funcs(pk) {
		if fn == quote || fn == isOp || fn == isStartOp || quoting[fn] {
			continue
		}
		_, calls := runeConsts(fn)
		hasRange := false
		eachInstr(fn, func(_ *ssa.BasicBlock, in ssa.Instruction) {
			if nx, ok := in.(*ssa.Next); ok && nx.IsString {
				hasRange = true
			}
		})
		// or a rune predicate (handed to strings.IndexFunc) that decides where a bare word ends
		if sig := fn.Signature; sig.Params().Len() == 1 && sig.Results().Len() == 1 && isBoolT(sig.Results().At(0).Type()) {
			if b, ok := sig.Params().At(0).Type().Underlying().(*types.Basic); ok && b.Kind() == types.Int32 {
				hasRange = true
			}
		}
		if !hasRange || !calls[isOp.Object().(*types.Func).FullName()] {
			continue
		}
		n++
		c.Check(calls["unicode.IsSpace"], R, fnName(fn)+":bare-word-terminators", p.pos(fn.Pos()), "a bare word ends at an operator or any Unicode space", "a bare word does not end at Unicode space")
		// and at nothing else: the scanner compares the characters of a word with no further constants (a quote, a
		// digit, a dash inside a word are part of the word)
		consts, _ := runeConsts(fn)
		var extra []string
		for k := range consts {
			if !ops[k] {
				extra = append(extra, fmt.Sprintf("%q", k))
			}
		}
		sort.Strings(extra)
		c.Check(len(extra) == 0, R, fnName(fn)+":bare-word-extra-terminators", p.pos(fn.Pos()), "nothing but operators and spaces ends a bare word",
			"the bare-word scanner also treats "+strings.Join(extra, ", ")+" specially: a word containing that character (5\", o\"clock) no longer denotes itself — it is split or rejected, and malformed input such as a:b\"c\":d is accepted")
	}
	c.Floor(R, "bare-word scanners", n, 1)
}

func c07R6(c *Ctx, p *Prog) {
	const R = "C07/R6"
	orderF := p.Field("benchproc/internal/parse", "Field", "Order")
	if orderF == nil {
		c.Undecided(R, "anchor:parse.Field.Order", "", "field not found")
		return
	}
	// producer: constants stored to Field.Order in package parse
	prod := map[string]bool{}
	for _, fn := range p.Funcs("benchproc/internal/parse") {
		for _, st := range storesToField(fn, orderF) {
			if s, ok := constString(st.Val); ok {
				prod[s] = true
			}
		}
	}
	// consumer: constants compared with Field.Order in package benchproc
	cons := map[string]bool{}
	var pos token.Pos
	for _, fn := range p.Funcs("benchproc") {
		eachInstr(fn, func(_ *ssa.BasicBlock, in ssa.Instruction) {
			bo, ok := in.(*ssa.BinOp)
			if !ok || (bo.Op != token.EQL && bo.Op != token.NEQ) {
				return
			}
			for _, pr := range [][2]ssa.Value{{bo.X, bo.Y}, {bo.Y, bo.X}} {
				if f, _ := loadOfField(pr[0]); f == orderF {
					if s, ok := constString(pr[1]); ok {
						cons[s] = true
						pos = bo.Pos()
					}
				}
			}
		})
	}
	c.Floor(R, "order sentinels assigned by the parser", len(prod), 2)
	var extra []string
	for k := range cons {
		if !prod[k] {
			extra = append(extra, fmt.Sprintf("%q", k))
		}
	}
	sort.Strings(extra)
	c.Check(len(extra) == 0, R, "order-sentinels", p.pos(pos), "the compiler special-cases exactly the parser's sentinels "+setStr(cons),
		"the projection compiler accepts order "+strings.Join(extra, ", ")+" which the parser never assigns as a sentinel: a user-written order of that spelling is accepted instead of being rejected as unknown")
	// the fall-through (named order lookup failed) returns a non-nil error
	n := 0
	for _, fn := range p.Funcs("benchproc") {
		if fn.Parent() != nil {
			continue
		}
		tracked := func(v ssa.Value) bool { f, _ := loadOfField(v); return f == orderF }
		uses := false
		eachInstr(fn, func(_ *ssa.BasicBlock, in ssa.Instruction) {
			if bo, ok := in.(*ssa.BinOp); ok && (tracked(bo.X) || tracked(bo.Y)) {
				uses = true
			}
		})
		if !uses {
			continue
		}
		// find map lookups keyed by the order with commaok whose false edge must return an error
		eachInstr(fn, func(b *ssa.BasicBlock, in ssa.Instruction) {
			lk, ok := in.(*ssa.Lookup)
			if !ok || !lk.CommaOk || !tracked(lk.Index) {
				return
			}
			n++
			// the If on extract #1
			okb := false
			for _, r := range *lk.Referrers() {
				ex, ok := r.(*ssa.Extract)
				if !ok || ex.Index != 1 {
					continue
				}
				for _, r2 := range *ex.Referrers() {
					if ifi, ok := r2.(*ssa.If); ok {
						fb := ifi.Block().Succs[1]
						if ret, ok := fb.Instrs[len(fb.Instrs)-1].(*ssa.Return); ok && len(ret.Results) > 0 && isNonNilValue(retLast(ret)) {
							okb = true
						}
					}
				}
			}
			c.Check(okb, R, fnName(fn)+":unknown-order-rejected", p.pos(lk.Pos()), "an order that is neither a sentinel nor in the named-order table returns an error",
				"an unknown sort order does not lead to an error return")
		})
	}
	c.Floor(R, "named-order table lookups", n, 1)
}

func c07R7(c *Ctx, p *Prog) {
	const R = "C07/R7"
	n := 0
	allow := map[string]string{
		"(*benchproc/internal/parse.tokenizer).regexp": "only decides whether 'regexp must be followed by space or an operator' is raised; the following text is re-tokenised with proper decoding",
	}
	// the allowance extends to helpers that only the allow-listed function calls (the test moved into a helper)
	callers := map[*ssa.Function]map[string]bool{}
	for _, fn := range p.Funcs("benchproc/internal/parse") {
		eachInstr(fn, func(_ *ssa.BasicBlock, in ssa.Instruction) {
			if call, ok := in.(*ssa.Call); ok {
				if sc := call.Call.StaticCallee(); sc != nil {
					if callers[sc] == nil {
						callers[sc] = map[string]bool{}
					}
					callers[sc][fnName(fn)] = true
				}
			}
		})
	}
	for _, fn := range p.Funcs("benchproc/internal/parse") {
		if cs := callers[fn]; len(cs) > 0 && fn.Parent() == nil {
			all := true
			why := ""
			for cn := range cs {
				if w, ok := allow[cn]; ok {
					why = w
				} else {
					all = false
				}
			}
			if all {
				allow[fnName(fn)] = why + " (helper called only from the allow-listed function)"
			}
		}
	}
	for _, fn := range p.Funcs("benchproc/internal/parse") {
		i := 0
		eachInstr(fn, func(_ *ssa.BasicBlock, in ssa.Instruction) {
			call, ok := in.(*ssa.Call)
			if !ok || !objIs(calleeObj(&call.Call), "unicode", "", "IsSpace") {
				return
			}
			n++
			i++
			arg := call.Call.Args[0]
			k := fmt.Sprintf("%s:IsSpace#%d", fnName(fn), i)
			byteConv := false
			if cv, ok := arg.(*ssa.Convert); ok {
				if _, isByte := byteIndexOf(cv.X); isByte {
					byteConv = true
				}
				if b, ok := cv.X.Type().Underlying().(*types.Basic); ok && b.Kind() == types.Uint8 {
					byteConv = true
				}
			}
			if !byteConv {
				c.OK(R, k, p.pos(call.Pos()), "classifies a decoded rune")
				return
			}
			if why, ok := allow[fnName(fn)]; ok {
				c.Allow(R, fnName(fn), why)
				c.OK(R, k, p.pos(call.Pos()), "byte classified as rune (allow-listed: "+why+")")
				return
			}
			// a byte known to be ASCII is a whole one-byte character (same exemption as C04/R8)
			unguarded := false
			for _, bc := range byteAsRune(fn) {
				if bc == call {
					unguarded = true
				}
			}
			if !unguarded {
				c.OK(R, k, p.pos(call.Pos()), "classifies a byte that was tested to be ASCII")
				return
			}
			c.Bad(R, k, p.pos(call.Pos()), "a single byte is converted to a rune and classified as space: the UTF-8 continuation bytes 0x85 and 0xA0 then act as delimiters and split words in the middle of a character")
		})
	}
	c.Floor(R, "space classifications in the tokenizer", n, 3)
}

func c07LoopErrors(c *Ctx, p *Prog) {
	const R = "C07/R9"
	n, nf := 0, 0
	for _, fn := range p.Funcs("benchproc", "benchproc/internal/parse") {
		nf++
		lost, k := lostLoopErrors(fn)
		n += k
		for i, l := range lost {
			c.Bad(R, fmt.Sprintf("%s:loop-error#%d", fnName(fn), i+1), p.pos(l.Pos), l.What+": with several sub-expressions only the last one's error is reported, an earlier invalid term is accepted and its compiled form is nil (Match then panics)")
		}
	}
	c.OK(R, "loop-errors:all-tested", "", fmt.Sprintf("%d error values produced inside loops in %d functions are all tested inside their loop", n, nf))
	_ = n
}

// c07Modes: regular expressions exist only in filter values. The value tokenizer (which reads a leading '/' as the
// start of a regexp) must not be reachable from the projection parser: there a word such as /usr/lib in a fixed-order
// list is a plain word.
func c07Modes(c *Ctx, p *Prog) {
	const R = "C07/R10"
	pk := "benchproc/internal/parse"
	pp := p.Fn(pk, "ParseProjection")
	vo := p.Method(pk, "tokenizer", "valueOrOp")
	if pp == nil || vo == nil {
		c.Undecided(R, "anchor:ParseProjection/valueOrOp", "", "not found")
		return
	}
	reach := staticReach([]*ssa.Function{pp}, modPath+"/"+pk)
	n := 0
	var bad []string
	for _, f := range reach {
		if f == vo {
			continue
		}
		n++
		eachInstr(f, func(_ *ssa.BasicBlock, in ssa.Instruction) {
			if call, ok := in.(*ssa.Call); ok && call.Call.StaticCallee() == vo {
				bad = append(bad, fnName(f)+" ("+p.pos(call.Pos())+")")
			}
		})
	}
	sort.Strings(bad)
	c.Check(len(bad) == 0, R, "projection-parser:no-value-tokens", p.pos(pp.Pos()), fmt.Sprintf("none of the %d functions of the projection parser reads a value token", n),
		fmt.Sprintf("the projection parser reads a token in value mode in %v: a list word that starts with '/' is scanned as a regular expression, so projections such as dir@(/usr/lib /opt) are rejected although the words contain no special character", bad))
	c.Floor(R, "functions reachable from the projection parser", n, 2)
}

// c07Positioned: every error the filter and projection constructors return is positioned: it is a *parse.SyntaxError
// built on the spot, or comes unchanged from the expression parsers (which return nothing else), or from a recursive
// call of the same constructor code. An error of a helper (the extractor constructor) returned as is has no offset.
func c07Positioned(c *Ctx, p *Prog) {
	const R = "C07/R11"
	synT := p.Named("benchproc/internal/parse", "SyntaxError")
	if synT == nil {
		c.Undecided(R, "anchor:parse.SyntaxError", "", "type not found")
		return
	}
	var roots []*ssa.Function
	if f := p.Fn("benchproc", "NewFilter"); f != nil {
		roots = append(roots, f)
	}
	if f := p.Method("benchproc", "ProjectionParser", "Parse"); f != nil {
		roots = append(roots, f)
	}
	if f := p.Method("benchproc", "ProjectionParser", "makeProjection"); f != nil {
		roots = append(roots, f)
	}
	inSet := map[*ssa.Function]bool{}
	var add func(f *ssa.Function)
	add = func(f *ssa.Function) {
		if inSet[f] {
			return
		}
		inSet[f] = true
		for _, a := range f.AnonFuncs {
			// only closures that themselves return an error take part
			if a.Signature.Results().Len() > 0 && isErrorType(a.Signature.Results().At(a.Signature.Results().Len()-1).Type()) {
				add(a)
			}
		}
	}
	for _, r := range roots {
		add(r)
	}
	n := 0
	// an error passed on unchanged from another function of the package is fine exactly when that function obeys the same
	// rule: it joins the set (and a bare error is then reported where it is made, with the chain that returns it)
	work := make([]*ssa.Function, 0, len(inSet))
	for f := range inSet {
		work = append(work, f)
	}
	sort.Slice(work, func(i, j int) bool { return fnName(work[i]) < fnName(work[j]) })
	via := map[*ssa.Function]string{}
	perFn := map[*ssa.Function]int{}
	for wi := 0; wi < len(work); wi++ {
		f := work[wi]
		res := f.Signature.Results()
		if res.Len() == 0 || !isErrorType(res.At(res.Len()-1).Type()) {
			continue
		}
		for _, b := range f.Blocks {
			ret, ok := b.Instrs[len(b.Instrs)-1].(*ssa.Return)
			if !ok {
				continue
			}
			var origins []string
			var walk func(v ssa.Value, d int)
			walk = func(v ssa.Value, d int) {
				if d > 6 {
					origins = append(origins, "other:deep")
					return
				}
				switch x := v.(type) {
				case *ssa.Const:
					origins = append(origins, "nil")
				case *ssa.MakeInterface:
					if pt, ok := x.X.Type().(*types.Pointer); ok && types.Identical(pt.Elem(), synT) {
						origins = append(origins, "syntaxerror")
					} else {
						origins = append(origins, "other:"+x.X.Type().String())
					}
				case *ssa.Phi:
					for _, e := range x.Edges {
						walk(e, d+1)
					}
				case *ssa.Extract:
					if call, ok := x.Tuple.(*ssa.Call); ok {
						if sc := call.Call.StaticCallee(); sc != nil {
							switch {
							case inSet[sc]:
								origins = append(origins, "same")
							case sc.Pkg != nil && sc.Pkg.Pkg.Path() == modPath+"/benchproc/internal/parse" && strings.HasPrefix(sc.Name(), "Parse"):
								origins = append(origins, "parser")
							case sc.Pkg != nil && sc.Pkg == f.Pkg && sc.Blocks != nil && f.Pkg.Pkg.Path() == modPath+"/benchproc":
								if !inSet[sc] {
									inSet[sc] = true
									via[sc] = fnName(f)
									work = append(work, sc)
									for _, a := range sc.AnonFuncs {
										if a.Signature.Results().Len() > 0 && isErrorType(a.Signature.Results().At(a.Signature.Results().Len()-1).Type()) && !inSet[a] {
											inSet[a] = true
											via[a] = fnName(f)
											work = append(work, a)
										}
									}
								}
								origins = append(origins, "same")
							default:
								origins = append(origins, "call:"+fnName(sc))
							}
						} else {
							origins = append(origins, "same") // the recursive walk closure, called through its variable
						}
					} else {
						origins = append(origins, "other")
					}
				case *ssa.UnOp:
					if al, ok := x.X.(*ssa.Alloc); ok {
						for _, r := range *al.Referrers() {
							if st, ok := r.(*ssa.Store); ok && st.Addr == al {
								walk(st.Val, d+1)
							}
						}
						return
					}
					origins = append(origins, "other")
				case *ssa.Call:
					if sc := x.Call.StaticCallee(); sc != nil {
						origins = append(origins, "call:"+fnName(sc))
					} else {
						origins = append(origins, "other")
					}
				default:
					origins = append(origins, "other")
				}
			}
			walk(retLast(ret), 0)
			n++
			perFn[f]++
			badO := ""
			for _, o := range origins {
				if strings.HasPrefix(o, "call:") || strings.HasPrefix(o, "other") {
					badO = o
				}
			}
			chain := ""
			if v := via[f]; v != "" {
				chain = " (this function's error is passed on unchanged by " + v + ")"
			}
			c.Check(badO == "", R, fmt.Sprintf("%s:return#%d", fnName(f), perFn[f]), p.pos(ret.Pos()), "returns nil, a positioned syntax error, or one passed on from the parsers",
				"an error is returned as it came from "+strings.TrimPrefix(badO, "call:")+chain+", not as a *parse.SyntaxError with the offset of the offending key: the rejection of e.g. an empty key is no longer positioned inside the expression")
		}
	}
	c.Floor(R, "error returns of the filter and projection constructors", n, 8)
}

// c07QuotedKind: whatever is inside quotes is a literal: every token the quoted-word scanner returns is of the
// quoted-word kind (or the error token), whatever its text — in particular "AND" and "OR" in quotes are words.
func c07QuotedKind(c *Ctx, p *Prog) {
	const R = "C07/R12"
	pk := "benchproc/internal/parse"
	fn := p.Method(pk, "tokenizer", "quotedWord")
	if fn == nil {
		c.Undecided(R, "anchor:tokenizer.quotedWord", "", "not found")
		return
	}
	site := p.pos(fn.Pos())
	mk := func() *e6Interp {
		return &e6Interp{PureCall: func(f *types.Func) bool { return true },
			Inline: func(f *ssa.Function) bool {
				return f.Pkg == fn.Pkg && f != fn && f.Parent() == nil && len(naturalLoops(f)) == 0 && len(f.Blocks) <= 12
			}, MaxAtoms: 18}
	}
	outs, why := regionOutcomes(fn, mk, 4096)
	if why != "" {
		c.Undecided(R, "quotedWord:table", site, why)
		return
	}
	n := 0
	for _, o := range outs {
		if o.Term != "return" || len(o.Results) < 1 {
			continue
		}
		n++
		kind := fieldOfSym(o.Results[0], "Kind", nil, nil)
		ks := "?"
		if kind != nil {
			ks = kind.String()
		}
		ok := ks == "113" || ks == "0"
		c.Check(ok, R, fmt.Sprintf("quotedWord:return#%d", n), site, "returns a quoted-word token or the error token",
			fmt.Sprintf("the quoted-word scanner returns a token of kind %s when %s: a quoted \"AND\" or \"OR\" (also spelled with escapes) becomes an operator, so values or keys with those names cannot be written at all", ks, truncate(o.AssignStr(), 160)))
	}
	c.Floor(R, "returns of the quoted-word scanner", n, 3)
}

// c07Progress (C07/R13).
func c07Progress(c *Ctx, p *Prog) {
	const R = "C07/R13"
	isCursor := func(t types.Type) bool { return recvName(t) == "tokenizer" }
	n := 0
	for _, fn := range p.Funcs("benchproc/internal/parse") {
		stuck, k := stuckLoops(fn, isCursor)
		n += k
		for i, at := range stuck {
			c.Bad(R, fmt.Sprintf("%s:cursor-not-advanced#%d", fnName(fn), i+1), p.pos(at.Pos()), "a loop reads a token from the tokenizer and can return to its head without having stored the advanced tokenizer: the same token is read again on the next iteration, so an expression that takes this path (e.g. a repeated word in a fixed list, a@(x y x)) makes the parser spin for ever")
		}
	}
	c.OK(R, "progress:loops", "", fmt.Sprintf("%d token loops, each advances its cursor on every path back to the head", n))
	c.Floor(R, "token loops in the expression parsers", n, 2)
}

// c07StaleGuards (C07/R14).
func c07StaleGuards(c *Ctx, p *Prog) {
	const R = "C07/R14"
	n := 0
	for _, fn := range p.Funcs("benchproc/internal/parse", "benchproc") {
		sg, k := staleGuards(fn)
		n += k
		for i, g := range sg {
			c.Bad(R, fmt.Sprintf("%s:read-beyond-tested-bound#%d", fnName(fn), i+1), p.pos(g.Read.Pos()), fmt.Sprintf("the text is read at offset %+d from a position that was only tested up to offset %+d against its length: an expression that ends exactly there (e.g. x:/[^) makes the scanner index out of range and the parser panics instead of reporting a syntax error", g.Offset, g.Guarded))
		}
	}
	c.OK(R, "bounds:reads", "", fmt.Sprintf("%d indexed reads in the expression parsers, none beyond a bound tested for its own base", n))
	ctl := mustLoad(c, loadOpts{dir: c.HomeDir + "/checker"}, "./testdata/lookbehind")
	nCtl := 0
	for _, fn := range ctl.Funcs("perfcheck/testdata/lookbehind") {
		sg, _ := staleGuards(fn)
		nCtl += len(sg)
	}
	if nCtl == 0 {
		c.Undecided(R, "positive-control", "", "the stale-guard matcher no longer recognises its own positive example")
	} else {
		c.OK(R, "positive-control", "checker/testdata/lookbehind/lb.go", "matcher fires on the stored stepped-past-the-test read")
	}
}

// c07ValuesAndKeywords (C07/R15): (a) the match constructor turns only word, quoted-word and regexp tokens into a match
// — the token kinds under which it allocates a FilterMatch are within {'w','q','r'}, so an operator can never be taken
// for a value and "key:" followed by AND/OR stays a syntax error; (b) the bare-word scanner hands out the keyword kinds
// exactly for the texts AND and OR compared by ==: nothing else (a case-insensitive comparison, a prefix) makes a word
// a keyword, so and, Or, ANDROID denote themselves.
func c07ValuesAndKeywords(c *Ctx, p *Prog) {
	const R = "C07/R15"
	pk := "benchproc/internal/parse"
	kindF := p.Field(pk, "tok", "Kind")
	// the match constructor, by role: the function of the package that takes a token and allocates a FilterMatch
	var mk *ssa.Function
	for _, f := range p.Funcs(pk) {
		takesTok := false
		for _, prm := range f.Params {
			if recvName(prm.Type()) == "tok" {
				takesTok = true
			}
		}
		if !takesTok || f.Parent() != nil {
			continue
		}
		eachInstr(f, func(_ *ssa.BasicBlock, in ssa.Instruction) {
			if al, ok := in.(*ssa.Alloc); ok && recvName(al.Type().(*types.Pointer).Elem()) == "FilterMatch" {
				mk = f
			}
		})
	}
	if kindF == nil || mk == nil {
		c.Undecided(R, "anchor:mkMatch/tok.Kind", "", "not found")
	} else {
		allocs := func(b *ssa.BasicBlock) bool {
			for _, in := range b.Instrs {
				if al, ok := in.(*ssa.Alloc); ok && recvName(al.Type().(*types.Pointer).Elem()) == "FilterMatch" {
					return true
				}
			}
			return false
		}
		kindTest := func(b *ssa.BasicBlock) (int64, bool) {
			ifi, ok := b.Instrs[len(b.Instrs)-1].(*ssa.If)
			if !ok {
				return 0, false
			}
			bo, ok := ifi.Cond.(*ssa.BinOp)
			if !ok || bo.Op != token.EQL {
				return 0, false
			}
			if f, _ := loadOfField(bo.X); f != kindF {
				return 0, false
			}
			return constInt(bo.Y)
		}
		accepted := map[int64]bool{}
		for _, b := range mk.Blocks {
			k, ok := kindTest(b)
			if !ok {
				continue
			}
			seen := map[*ssa.BasicBlock]bool{}
			work := []*ssa.BasicBlock{b.Succs[0]}
			for len(work) > 0 {
				x := work[len(work)-1]
				work = work[:len(work)-1]
				if seen[x] {
					continue
				}
				seen[x] = true
				if allocs(x) {
					accepted[k] = true
					break
				}
				if _, isTest := kindTest(x); isTest {
					continue
				}
				work = append(work, x.Succs...)
			}
		}
		var got []string
		bad := ""
		for k := range accepted {
			got = append(got, fmt.Sprintf("%q", rune(k)))
			if k != 'w' && k != 'q' && k != 'r' {
				bad += fmt.Sprintf(" %q", rune(k))
			}
		}
		sort.Strings(got)
		c.Check(bad == "" && len(accepted) >= 2, R, "mkMatch:value-kinds", p.pos(mk.Pos()), "a match is built from tokens of kind "+strings.Join(got, ", "),
			"the match constructor builds a match from tokens of kind"+bad+" (accepted: "+strings.Join(got, ", ")+"): an operator keyword right after 'key:' is swallowed as the value, so 'a: OR b:c' — a term lacking its value — is accepted instead of being rejected")
	}
	// (b) keywords
	n := 0
	for _, fn := range p.Funcs(pk) {
		if fn.Signature.Recv() == nil || recvName(fn.Signature.Recv().Type()) != "tokenizer" {
			continue
		}
		// the scanner that can return the keyword kinds
		makes := false
		eachInstr(fn, func(_ *ssa.BasicBlock, in ssa.Instruction) {
			if call, ok := in.(*ssa.Call); ok {
				for _, a := range call.Call.Args {
					if k, ok := constInt(a); ok && (k == 'A' || k == 'O') && isInteger(a.Type()) {
						if b, ok := a.Type().Underlying().(*types.Basic); ok && (b.Kind() == types.Uint8 || b.Kind() == types.Int32 || b.Kind() == types.UntypedRune) {
							makes = true
						}
					}
				}
			}
		})
		if !makes {
			continue
		}
		eachInstr(fn, func(b *ssa.BasicBlock, in ssa.Instruction) {
			call, ok := in.(*ssa.Call)
			if !ok {
				return
			}
			var kind int64
			for _, a := range call.Call.Args {
				if k, ok := constInt(a); ok && (k == 'A' || k == 'O') {
					if bt, ok := a.Type().Underlying().(*types.Basic); ok && (bt.Kind() == types.Uint8 || bt.Kind() == types.Int32) {
						kind = k
					}
				}
			}
			if kind == 0 {
				return
			}
			n++
			want := map[int64]string{'A': "AND", 'O': "OR"}[kind]
			okEq := false
			for _, f := range factsAt(b) {
				bo, ok := f.Cond.(*ssa.BinOp)
				if !ok || !f.True || bo.Op != token.EQL {
					continue
				}
				if s, ok := constString(bo.Y); ok && s == want && isString(bo.X.Type()) {
					okEq = true
				}
				if s, ok := constString(bo.X); ok && s == want && isString(bo.Y.Type()) {
					okEq = true
				}
			}
			c.Check(okEq, R, fmt.Sprintf("%s:keyword %s", fnName(fn), want), p.pos(call.Pos()), "the keyword kind is produced where the word == "+strconv.Quote(want),
				"the "+want+" keyword token is produced without the word having been compared with "+strconv.Quote(want)+" by ==: other spellings (and, Or, And) stop denoting themselves as keys, values and list words")
		})
	}
	c.Floor(R, "keyword tokens produced by the word scanner", n, 2)
}

// c07QuotedEverywhere (C07/R16): (a) wherever the filter parser accepts a bare word it accepts a quoted word: in the
// parser methods, a test of a token's kind against 'w' that leads somewhere has a test of the same token against 'q'
// leading to the same place; (b) a quoted word denotes what strconv.Unquote says: the text of every 'q' token the
// tokenizer makes is the first result of strconv.Unquote.
func c07QuotedEverywhere(c *Ctx, p *Prog) {
	const R = "C07/R16"
	pk := "benchproc/internal/parse"
	kindF := p.Field(pk, "tok", "Kind")
	if kindF == nil {
		c.Undecided(R, "anchor:tok.Kind", "", "not found")
		return
	}
	n := 0
	for _, fn := range p.Funcs(pk) {
		if fn.Signature.Recv() == nil || recvName(fn.Signature.Recv().Type()) != "parser" {
			continue
		}
		// kind tests: block -> (token base, kind, true successor)
		type kt struct {
			base ssa.Value
			k    int64
			to   *ssa.BasicBlock
			pos  token.Pos
		}
		var tests []kt
		for _, b := range fn.Blocks {
			ifi, ok := b.Instrs[len(b.Instrs)-1].(*ssa.If)
			if !ok {
				continue
			}
			bo, ok := ifi.Cond.(*ssa.BinOp)
			if !ok || bo.Op != token.EQL {
				continue
			}
			f, base := loadOfField(bo.X)
			k, isK := constInt(bo.Y)
			if f != kindF || !isK {
				continue
			}
			to := b.Succs[0]
			tests = append(tests, kt{base, k, to, bo.Pos()})
		}
		for _, t := range tests {
			if t.k != 'w' {
				continue
			}
			n++
			has := false
			for _, u := range tests {
				if u.k == 'q' && u.to == t.to && (u.base == t.base || sameValue(u.base, t.base) || sameAddr(u.base, t.base)) {
					has = true
				}
			}
			c.Check(has, R, fmt.Sprintf("%s:quoted-where-bare#%d", fnName(fn), n), p.pos(t.pos), "a quoted word is accepted where a bare word is",
				"the parser accepts a bare word here but not a quoted word: a key that needs quoting (\"two words\":v) is rejected in this position although the same key is accepted elsewhere in the expression")
		}
	}
	c.Floor(R, "places where the filter parser accepts a bare word", n, 3)
	// (b)
	nq := 0
	for _, fn := range p.Funcs(pk) {
		eachInstr(fn, func(_ *ssa.BasicBlock, in ssa.Instruction) {
			call, ok := in.(*ssa.Call)
			if !ok || len(call.Call.Args) < 3 {
				return
			}
			sc := call.Call.StaticCallee()
			if sc == nil || sc.Name() != "tok" || sc.Signature.Recv() == nil {
				return
			}
			args := callArgs(&call.Call)
			if k, ok := constInt(args[1]); !ok || k != 'q' {
				return
			}
			nq++
			okU := false
			if ex, ok := args[2].(*ssa.Extract); ok && ex.Index == 0 {
				if uc, ok := ex.Tuple.(*ssa.Call); ok && objIs(calleeObj(&uc.Call), "strconv", "", "Unquote") {
					okU = true
				}
			}
			c.Check(okU, R, fmt.Sprintf("%s:quoted-text#%d", fnName(fn), nq), p.pos(call.Pos()), "the text of a quoted-word token is strconv.Unquote of what was scanned",
				"the text of a quoted-word token is not the result of strconv.Unquote: a hand-made decoding has to get every escape right — \\x80..\\xff denote single bytes, not the runes U+0080..U+00FF, so a quoted non-UTF-8 key or value denotes another string than the one written")
		})
	}
	c.Floor(R, "quoted-word tokens made by the tokenizer", nq, 1)
}
