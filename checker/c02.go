// c02.go: C02 — the reader follows the format's line and scoping rules on every input.
package main

import (
	"fmt"
	"go/constant"
	"go/token"
	"go/types"
	"sort"
	"strings"

	"golang.org/x/tools/go/ssa"
)

func init() { register("C02", checkC02) }

func checkC02(c *Ctx) {
	c.Rule("C02/R1", "Clone shares nothing: every reference-typed component reachable from a Result by value (Config, each Config.Value, Name, Values, the key index) is, in the clone, a fresh allocation or nil — enumerated from the struct types, so a new slice field must be handled")
	c.Rule("C02/R2", "ownership of the line buffer: bytes obtained from the scanner (and sub-slices of them handed through the package's helpers) reach persistent state only through element copies or string conversions; the one view the API allows is Result.Name")
	c.Rule("C02/R3", "index and slice move together: every function that changes the length of Result.Config also updates the key index, and the key index is written nowhere else (apart from its lazy construction)")
	c.Rule("C02/R4", "per-file reset: Reader.Reset unconditionally re-initialises every field of the reader except the two documented to persist (unit metadata, intern table), creating those only when absent; Files resets the reader with the file's own label before scanning it and never replaces it")
	c.Rule("C02/R5", "loop progress: every scanning loop whose condition contains no call advances, on every path back to its head, a variable the condition reads")
	c.Rule("C02/R6", "the key/value line recogniser applies exactly the documented predicates (lower-case first rune, no space or upper case in the key, ':' after position 0, blank or tab separated value) — and agrees with the legacy recogniser")

	c.Rule("C02/R7", "measurements: the integer fast path of the measurement parser is exact (same rule as C03/R2: digits only, the accumulator guarded so that the multiply-add cannot overflow, everything else handed to the full parser)")
	c.Rule("C02/R10", "every other line reaches the recogniser: each path through one iteration of the scanning loop calls one of the three line parsers (benchmark, unit, key/value); no extra pre-test decides that a line cannot be configuration")
	c.Rule("C02/R11", "malformed unit lines: a unit metadata field is recorded only on paths that established a non-empty key (text before '=')")
	c.Rule("C02/R9", "measurements: each measurement is recorded under Tidy's unit with the pair as written kept alongside exactly when the unit was rewritten (string comparison of the units; same rule as C04/R1)")
	c.Rule("C02/R17", "what may stand inside a configuration key is decided by unicode.IsSpace and unicode.IsUpper, for ASCII too: one step of the key scan, evaluated for twelve sample bytes, refuses exactly the space and upper-case ones")
	c.Rule("C02/R16", "the value of a configuration line is the rest of the line: what parseKeyValueLine returns as the value is a suffix of the line (no upper bound, no trimming on the right)")
	c.Rule("C02/R15", "a configuration line with a value files its key as file configuration: in Reader.Scan every path from the not-deleting branch to the common continuation passes ensureConfig(key, true)")
	c.Rule("C02/R14", "unit-metadata lines: a line reaches parseUnitLine only where its first field was compared, whole, with \"Unit\"; the loop over the line's key=value pairs is left only where a field's length was tested")
	c.Rule("C02/R8", "file labels: in Files.init an input is counted towards 'same path given more than once' exactly when it carries no explicit label, which is exactly the set of inputs the disambiguation loop may relabel; a labelled input keeps the user's label")

	c.Rule("C02/R13", "separator runs are consumed whole: no return of splitField's stripping loop is feasible while the text handed back begins with white space (six ASCII and three multi-byte samples; conditions on the first byte, the length and unicode.IsSpace answered from the sample)")
	c.Rule("C02/R12", "key lines: nothing a 'key: value' recogniser tests before decoding the first character rejects a line that begins with a lower-case letter (evaluated for ASCII letters and the lead bytes of multi-byte lower-case letters)")
	p := mustLoad(c, loadOpts{}, "./benchfmt", "./storage/benchfmt")
	c03FastFloat(c, p, "C02/R7")
	c02Dispatch(c, p)
	c02UnitKey(c, p)
	c04R1(c, p, "C02/R9")
	c02Labels(c, p)
	c02Clone(c, p)
	c02Ownership(c, p)
	c02Index(c, p)
	c02Reset(c, p)
	c02Progress(c, p)
	c02KeyStart(c, p, "C02/R12")
	c02Strip(c, p)
	c02UnitLines(c, p)
	c02ConfigLineRecorded(c, p)
	c02ValueIsTheRest(c, p)
	c02KeyCharacters(c, p)
	// R6: reuse the sibling rule
	sub := newCtx(c.Prop, c.Tier)
	sub.RepoDir, sub.VerifDir, sub.HomeDir = c.RepoDir, c.VerifDir, c.HomeDir
	c19Siblings(sub, p)
	for _, o := range sub.obs {
		o.Rule = "C02/R6"
		c.add(o)
	}
}

func isRefType(t types.Type) bool {
	switch t.Underlying().(type) {
	case *types.Slice, *types.Map, *types.Pointer, *types.Chan, *types.Signature, *types.Interface:
		return true
	}
	return false
}

func freshOrNil(v ssa.Value) bool {
	if k, ok := v.(*ssa.Const); ok {
		return k.IsNil() || k.Value != nil
	}
	for _, r := range rootsOf(v) {
		if r.Kind != rkLocal && r.Kind != rkConst {
			return false
		}
	}
	return true
}

func c02Clone(c *Ctx, p *Prog) {
	const R = "C02/R1"
	fn := p.Method("benchfmt", "Result", "Clone")
	resT := p.Named("benchfmt", "Result")
	cfgT := p.Named("benchfmt", "Config")
	if fn == nil || resT == nil || cfgT == nil {
		c.Undecided(R, "anchor:Result.Clone", "", "not found")
		return
	}
	site := p.pos(fn.Pos())
	// the returned object
	var obj *ssa.Alloc
	for _, b := range fn.Blocks {
		if ret, ok := b.Instrs[len(b.Instrs)-1].(*ssa.Return); ok {
			if al, ok := retVal(ret, 0).(*ssa.Alloc); ok {
				obj = al
			}
		}
	}
	if obj == nil {
		c.Bad(R, "Clone:fresh-object", site, "Clone does not return a freshly allocated Result")
		return
	}
	// whole-struct stores into the clone (shallow copy)
	shallow := false
	for _, r := range *obj.Referrers() {
		if st, ok := r.(*ssa.Store); ok && st.Addr == obj {
			if !freshOrNil(st.Val) {
				shallow = true
			}
		}
	}
	st := resT.Underlying().(*types.Struct)
	for i := 0; i < st.NumFields(); i++ {
		f := st.Field(i)
		if !isRefType(f.Type()) {
			continue
		}
		key := "Clone:Result." + f.Name()
		stores := storesToFieldOf(obj, f)
		switch {
		case len(stores) == 0 && shallow:
			c.Bad(R, key, site, "the clone starts as a shallow copy and "+f.Name()+" is never replaced: the clone's "+f.Name()+" aliases the reader's reusable buffer and changes as reading continues")
		case len(stores) == 0:
			c.OK(R, key, site, "left nil in the clone")
		default:
			ok := true
			for _, s := range stores {
				if !freshOrNil(s.Val) {
					ok = false
				}
			}
			c.Check(ok, R, key, site, "assigned from a fresh allocation", "the clone's "+f.Name()+" is assigned from the original's storage, not from a fresh allocation: the clone changes when the original is reused")
		}
	}
	// nested: elements of Config — reference-typed fields of Config
	cst := cfgT.Underlying().(*types.Struct)
	var cst0 *types.Var // Result.Config
	for i := 0; i < st.NumFields(); i++ {
		if st.Field(i).Name() == "Config" {
			cst0 = st.Field(i)
		}
	}
	for i := 0; i < cst.NumFields(); i++ {
		f := cst.Field(i)
		if !isRefType(f.Type()) {
			continue
		}
		key := "Clone:Config." + f.Name()
		ok, found := true, false
		okPer, perWhy := true, ""
		eachInstr(fn, func(_ *ssa.BasicBlock, in ssa.Instruction) {
			s, isSt := in.(*ssa.Store)
			if !isSt {
				return
			}
			if ff, base := fieldOfAddr(s.Addr); ff == f {
				// element of the clone's Config
				if ia, isIA := base.(*ssa.IndexAddr); isIA {
					if lf, lb := loadOfField(ia.X); lf != nil && lf.Name() == "Config" && lb == obj {
						found = true
						if !freshOrNil(s.Val) {
							ok = false
						}
						if shared := sharedAcrossIterations(fn, s); shared != "" {
							okPer = false
							perWhy = shared
						}
					}
				}
			}
			// whole-element copies into the clone's Config: the copied struct's field must have been replaced by a fresh slice
			if ia, isIA := s.Addr.(*ssa.IndexAddr); isIA {
				toClone := false
				if lf, lb := loadOfField(ia.X); lf != nil && lf.Name() == "Config" && lb == obj {
					toClone = true
				}
				// or into a fresh slice that becomes the clone's Config
				for _, cs := range storesToFieldOf(obj, cst0) {
					if cs.Val == ia.X {
						toClone = true
					}
				}
				// or into the argument array of an append that builds the clone's Config
				if al, isAl := ia.X.(*ssa.Alloc); isAl {
					if at, isArr := al.Type().(*types.Pointer).Elem().(*types.Array); isArr && types.Identical(at.Elem(), cfgT) {
						toClone = true
					}
				}
				if toClone && types.Identical(s.Val.Type(), cfgT) {
					found = true
					okEl := false
					if la := loadAddr(s.Val); la != nil {
						if al, isAl := la.(*ssa.Alloc); isAl {
							for _, fs := range storesToFieldOf(al, f) {
								if freshOrNil(fs.Val) && instrDominates(fs, s) {
									okEl = true
								}
							}
						}
					}
					if !okEl {
						ok = false
					}
				}
			}
		})
		c.Check(okPer, R, key+":per-element", site, "each element's "+f.Name()+" has its own backing array (allocated inside the copy loop, or capacity-limited)",
			"the cloned elements' "+f.Name()+" slices are carved out of one buffer allocated outside the copy loop without limiting their capacity ("+perWhy+"): appending to one key's value in the clone (SetConfig with a longer value) overwrites the bytes of the following keys")
		// appends of whole elements
		c.Check(found && ok, R, key, site, "each cloned Config element gets a fresh "+f.Name(), "cloned Config elements share their "+f.Name()+" with the original (element copied wholesale, or the field assigned from the original's slice): the clone's configuration changes as reading continues")
	}
}

// ---- R2 ----

func c02Ownership(c *Ctx, p *Prog) {
	const R = "C02/R2"
	fns := p.Funcs("benchfmt")
	// tainted parameters per function (fixpoint), taint sources: (*bufio.Scanner).Bytes
	taintedParam := map[*ssa.Function]map[int]bool{}
	returnsTaint := map[*ssa.Function]bool{} // returns (a sub-slice of) a tainted parameter
	isByteSlice := func(t types.Type) bool {
		s, ok := t.Underlying().(*types.Slice)
		if !ok {
			return false
		}
		b, ok := s.Elem().Underlying().(*types.Basic)
		return ok && b.Kind() == types.Uint8
	}
	var violations []struct {
		fn  *ssa.Function
		in  ssa.Instruction
		why string
	}
	nameF := p.Field("benchfmt", "Result", "Name")
	analyse := func(fn *ssa.Function, report bool) (changed bool) {
		tainted := map[ssa.Value]bool{}
		for i, prm := range fn.Params {
			if taintedParam[fn][i] {
				tainted[prm] = true
			}
		}
		for iter := 0; iter < 20; iter++ {
			grew := false
			mark := func(v ssa.Value) {
				if !tainted[v] {
					tainted[v] = true
					grew = true
				}
			}
			eachInstr(fn, func(_ *ssa.BasicBlock, in ssa.Instruction) {
				switch x := in.(type) {
				case *ssa.Call:
					if objIs(calleeObj(&x.Call), "bufio", "Scanner", "Bytes") {
						mark(x)
					}
					if b, ok := x.Call.Value.(*ssa.Builtin); ok && b.Name() == "append" {
						// append(dst, src...) copies src's elements: the result shares dst's storage only
						if tainted[x.Call.Args[0]] {
							mark(x)
						}
						return
					}
					if sc := x.Call.StaticCallee(); sc != nil && sc.Pkg != nil && sc.Pkg.Pkg.Path() == bfPkg {
						for i, a := range x.Call.Args {
							if tainted[a] && isByteSlice(a.Type()) {
								if taintedParam[sc] == nil {
									taintedParam[sc] = map[int]bool{}
								}
								if !taintedParam[sc][i] {
									taintedParam[sc][i] = true
									changed = true
								}
							}
						}
						if returnsTaint[sc] {
							anyT := false
							for _, a := range x.Call.Args {
								if tainted[a] {
									anyT = true
								}
							}
							if anyT {
								mark(x)
							}
						}
					}
				case *ssa.Extract:
					if tainted[x.Tuple] && isByteSlice(x.Type()) {
						mark(x)
					}
				case *ssa.Slice:
					if tainted[x.X] {
						mark(x)
					}
				case *ssa.Phi:
					for _, e := range x.Edges {
						if tainted[e] {
							mark(x)
						}
					}
				case *ssa.ChangeType:
					if tainted[x.X] {
						mark(x)
					}
				case *ssa.UnOp:
					// loads of local slots that hold tainted values
					if x.Op == token.MUL {
						if al, ok := x.X.(*ssa.Alloc); ok {
							for _, r := range *al.Referrers() {
								if st, ok := r.(*ssa.Store); ok && st.Addr == al && tainted[st.Val] {
									mark(x)
								}
							}
						}
					}
				}
			})
			if !grew {
				break
			}
		}
		// returns
		for _, b := range fn.Blocks {
			if ret, ok := b.Instrs[len(b.Instrs)-1].(*ssa.Return); ok {
				for i := range ret.Results {
					if tainted[retVal(ret, i)] && !returnsTaint[fn] {
						returnsTaint[fn] = true
						changed = true
					}
				}
			}
		}
		if report {
			eachInstr(fn, func(_ *ssa.BasicBlock, in ssa.Instruction) {
				switch x := in.(type) {
				case *ssa.Store:
					if !tainted[x.Val] {
						return
					}
					if al, ok := x.Addr.(*ssa.Alloc); ok && !al.Heap {
						return
					}
					local := true
					for _, r := range rootsOf(x.Addr) {
						if r.Kind != rkLocal {
							local = false
						}
					}
					if local {
						return
					}
					if f, _ := fieldOfAddr(x.Addr); f == nameF {
						return // the documented view: valid until the next Scan, copied by Clone
					}
					violations = append(violations, struct {
						fn  *ssa.Function
						in  ssa.Instruction
						why string
					}{fn, in, "stored into " + writeLabel(x.Addr)})
				case *ssa.MapUpdate:
					if tainted[x.Value] || tainted[x.Key] {
						violations = append(violations, struct {
							fn  *ssa.Function
							in  ssa.Instruction
							why string
						}{fn, in, "stored in a map"})
					}
				}
			})
		}
		return changed
	}
	for iter := 0; iter < 10; iter++ {
		ch := false
		for _, fn := range fns {
			if analyse(fn, false) {
				ch = true
			}
		}
		if !ch {
			break
		}
	}
	nT := 0
	for _, fn := range fns {
		analyse(fn, true)
		nT += len(taintedParam[fn])
	}
	for i, v := range violations {
		c.Bad(R, fmt.Sprintf("%s:line-buffer-escape#%d", fnName(v.fn), i+1), p.pos(v.in.Pos()), "a slice of the scanner's line buffer is "+v.why+" without being copied: once the scanner refills its buffer (inputs larger than its buffer) the stored configuration or metadata silently changes")
	}
	if len(violations) == 0 {
		c.OK(R, "line-buffer:no-escape", "", fmt.Sprintf("scanner bytes flow into %d helper parameters; every store of them into persistent state goes through an element copy or a string conversion (Result.Name excepted)", nT))
	}
	c.Floor(R, "helper parameters receiving scanner bytes", nT, 3)
}

// ---- R3 ----

func c02Index(c *Ctx, p *Prog) {
	const R = "C02/R3"
	configF := p.Field("benchfmt", "Result", "Config")
	posF := p.Field("benchfmt", "Result", "configPos")
	if configF == nil || posF == nil {
		c.Undecided(R, "anchor:Result.Config/configPos", "", "fields not found")
		return
	}
	writesPos := func(fn *ssa.Function) (upd, del, mk bool) {
		eachInstr(fn, func(_ *ssa.BasicBlock, in ssa.Instruction) {
			switch x := in.(type) {
			case *ssa.MapUpdate:
				if f, _ := loadOfField(x.Map); f == posF {
					upd = true
				}
			case *ssa.Call:
				if b, ok := x.Call.Value.(*ssa.Builtin); ok && (b.Name() == "delete" || b.Name() == "clear") {
					if f, _ := loadOfField(x.Call.Args[0]); f == posF {
						del = true
					}
				}
			case *ssa.Store:
				if f, base := fieldOfAddr(x.Addr); f == posF {
					if _, fresh := base.(*ssa.Alloc); !fresh {
						mk = true
					}
				}
			}
		})
		return
	}
	n := 0
	writers := map[string]bool{}
	for _, fn := range p.Funcs("benchfmt") {
		upd, del, mk := writesPos(fn)
		if upd || del || mk {
			writers[fnName(fn)] = true
		}
		// length changes of Config on an existing Result (not on a freshly allocated one)
		for i, st := range storesToField(fn, configF) {
			_, base := fieldOfAddr(st.Addr)
			if _, fresh := base.(*ssa.Alloc); fresh {
				continue
			}
			n++
			kind := "grows"
			if sl, ok := st.Val.(*ssa.Slice); ok {
				if sl.High != nil {
					if k, ok := constInt(sl.High); ok && k == 0 {
						kind = "empties"
					} else if bo, ok := sl.High.(*ssa.BinOp); ok && bo.Op == token.SUB {
						kind = "shrinks"
					} else if bo, ok := sl.High.(*ssa.BinOp); ok && bo.Op == token.ADD {
						kind = "grows"
					}
				}
			}
			key := fmt.Sprintf("%s:%s Config#%d", fnName(fn), kind, i+1)
			switch kind {
			case "grows":
				c.Check(upd, R, key, p.pos(st.Pos()), "a new element's position is recorded in the key index", "Config grows but the new key's position is not recorded in the key index: later lookups miss the key and add a duplicate")
			case "shrinks":
				c.Check(del && upd, R, key, p.pos(st.Pos()), "the removed key leaves the index and the moved key is re-pointed", "Config shrinks (swap-delete) without both removing the deleted key from the index and re-pointing the key that moved into its slot")
			case "empties":
				c.Check(del, R, key, p.pos(st.Pos()), "the key index is emptied together with Config", "Config is emptied but the key index keeps its entries: keys of the previous file resolve to stale positions")
			}
		}
	}
	c.Floor(R, "length changes of an existing Result's Config", n, 3)
	var ws []string
	for w := range writers {
		ws = append(ws, w)
	}
	sort.Strings(ws)
	want := []string{"(*benchfmt.Reader).Reset", "(*benchfmt.Result).ConfigIndex", "(*benchfmt.Result).deleteConfig", "(*benchfmt.Result).ensureConfig"}
	extra := []string{}
	for _, w := range ws {
		found := false
		for _, x := range want {
			if x == w {
				found = true
			}
		}
		if !found {
			// a helper that exists only for the reviewed functions (every caller is one of them) is part of them
			for _, f := range p.Funcs("benchfmt") {
				if fnName(f) == w && calledOnlyFrom(f, p.Funcs("benchfmt"), func(g *ssa.Function) bool {
					for _, x := range want {
						if fnName(g) == x {
							return true
						}
					}
					return false
				}) {
					found = true
				}
			}
		}
		if !found {
			extra = append(extra, w)
		}
	}
	c.Check(len(extra) == 0, R, "index:writers", "", fmt.Sprintf("the key index is written only by %v", ws), fmt.Sprintf("the key index is also written by %v, outside the reviewed maintenance functions", extra))
}

// ---- R4 ----

func c02Reset(c *Ctx, p *Prog) {
	const R = "C02/R4"
	fn := p.Method("benchfmt", "Reader", "Reset")
	readerT := p.Named("benchfmt", "Reader")
	resT := p.Named("benchfmt", "Result")
	if fn == nil || readerT == nil || resT == nil {
		c.Undecided(R, "anchor:Reader.Reset", "", "not found")
		return
	}
	site := p.pos(fn.Pos())
	persistent := map[string]string{"units": "unit metadata carries across files (documented)", "interns": "string intern table, content-addressed"}
	// blocks that dominate every return
	var rets []*ssa.BasicBlock
	for _, b := range fn.Blocks {
		if _, ok := b.Instrs[len(b.Instrs)-1].(*ssa.Return); ok {
			rets = append(rets, b)
		}
	}
	unconditional := func(b *ssa.BasicBlock) bool {
		for _, r := range rets {
			if !b.Dominates(r) {
				return false
			}
		}
		return true
	}
	checkStruct := func(prefix string, st *types.Struct, isBase func(ssa.Value) bool) {
		for i := 0; i < st.NumFields(); i++ {
			f := st.Field(i)
			key := "Reset:" + prefix + f.Name()
			if why, ok := persistent[f.Name()]; ok && prefix == "Reader." {
				c.Allow(R, "Reader."+f.Name(), why)
				continue
			}
			if f.Name() == "result" && prefix == "Reader." {
				continue // handled field by field below
			}
			stored := false
			eachInstr(fn, func(b *ssa.BasicBlock, in ssa.Instruction) {
				if s, ok := in.(*ssa.Store); ok {
					if ff, base := fieldOfAddr(s.Addr); ff == f && isBase(base) && unconditional(b) {
						stored = true
					}
				}
			})
			// maps may be cleared by a delete-all loop instead
			if !stored {
				if _, isMap := f.Type().Underlying().(*types.Map); isMap {
					eachInstr(fn, func(_ *ssa.BasicBlock, in ssa.Instruction) {
						if call, ok := in.(*ssa.Call); ok {
							if b, ok := call.Call.Value.(*ssa.Builtin); ok && (b.Name() == "delete" || b.Name() == "clear") {
								if ff, _ := loadOfField(call.Call.Args[0]); ff == f {
									stored = true
								}
							}
						}
					})
				}
			}
			c.Check(stored, R, key, site, "re-initialised unconditionally", prefix+f.Name()+" is not re-initialised by Reset on every path: state of the previous file (queued records, configuration, position) leaks into the next")
		}
	}
	recv := fn.Params[0]
	checkStruct("Reader.", readerT.Underlying().(*types.Struct), func(b ssa.Value) bool { return b == recv })
	resultF := p.Field("benchfmt", "Reader", "result")
	checkStruct("Reader.result.", resT.Underlying().(*types.Struct), func(b ssa.Value) bool {
		fa, ok := b.(*ssa.FieldAddr)
		if !ok {
			return false
		}
		f, bb := fieldOfAddr(fa)
		return f == resultF && bb == recv
	})
	// persistent tables created only when absent; Files never replaces the reader
	c14Units(c, p, R)
	// Files.Scan: Reset with ".file" and the input's label before the reader scans
	scan := p.Method("benchfmt", "Files", "Scan")
	if scan == nil {
		c.Undecided(R, "anchor:Files.Scan", "", "not found")
		return
	}
	// the opening of the next input may sit in Scan or in a helper method of Files that Scan calls
	cands := []*ssa.Function{scan}
	eachInstr(scan, func(_ *ssa.BasicBlock, in ssa.Instruction) {
		if ci, ok := in.(ssa.CallInstruction); ok {
			if sc := ci.Common().StaticCallee(); sc != nil && sc.Pkg == scan.Pkg && sc.Blocks != nil && sc.Signature.Recv() != nil && recvName(sc.Signature.Recv().Type()) == "Files" {
				cands = append(cands, sc)
			}
		}
	})
	var readerScan *ssa.Call
	eachInstr(scan, func(_ *ssa.BasicBlock, in ssa.Instruction) {
		if call, ok := in.(*ssa.Call); ok && objIs(calleeObj(&call.Call), bfPkg, "Reader", "Scan") {
			readerScan = call
		}
	})
	fileF := p.Field("benchfmt", "Files", "file")
	var resetCall *ssa.Call
	var opener *ssa.Function
	okAll := true
	nOpen := 0
	for _, fn := range cands {
		var rc *ssa.Call
		eachInstr(fn, func(_ *ssa.BasicBlock, in ssa.Instruction) {
			if call, ok := in.(*ssa.Call); ok && objIs(calleeObj(&call.Call), bfPkg, "Reader", "Reset") {
				rc = call
			}
		})
		for _, st := range storesToField(fn, fileF) {
			if k, ok := st.Val.(*ssa.Const); ok && k.IsNil() {
				continue
			}
			nOpen++
			opener = fn
			if rc == nil {
				okAll = false
				continue
			}
			resetCall = rc
			if st.Block() == rc.Block() {
				continue
			}
			reach := reachFrom(st.Block(), map[*ssa.BasicBlock]bool{rc.Block(): true})
			if fn == scan {
				if readerScan != nil && reach[readerScan.Block()] {
					okAll = false
				}
			} else {
				// in a helper: no way back to the caller that skips Reset
				for b := range reach {
					if _, isRet := b.Instrs[len(b.Instrs)-1].(*ssa.Return); isRet {
						okAll = false
					}
				}
			}
		}
	}
	if resetCall == nil || readerScan == nil {
		c.Bad(R, "Files.Scan:reset-per-file", p.pos(scan.Pos()), "Files.Scan does not reset the reader for each file")
		return
	}
	c.Check(okAll && nOpen >= 1, R, "Files.Scan:reset-per-file", p.pos(resetCall.Pos()), fmt.Sprintf("each of the %d ways a file becomes current passes Reset before the reader scans", nOpen), "after opening a file the reader can scan without having been reset: configuration of the previous file leaks into the next")
	scanOrOpener := opener
	// the label: Reset's variadic config carries ".file" and the label of the same input
	hasFile := false
	eachInstr(scanOrOpener, func(_ *ssa.BasicBlock, in ssa.Instruction) {
		if st, ok := in.(*ssa.Store); ok {
			if s, ok := constString(st.Val); ok && s == ".file" {
				hasFile = true
			}
		}
	})
	c.Check(hasFile, R, "Files.Scan:file-label", p.pos(resetCall.Pos()), "Reset installs the .file label", "Reset is not given the .file label")
	// positions name the file that was opened: the name handed to Reset is the very path handed to os.Open (in the
	// opener, or in a helper of the package the opener gives it to)
	var opened ssa.Value
	eachInstr(scanOrOpener, func(_ *ssa.BasicBlock, in ssa.Instruction) {
		call, ok := in.(*ssa.Call)
		if !ok {
			return
		}
		if objIs(calleeObj(&call.Call), "os", "", "Open") {
			opened = call.Call.Args[0]
			return
		}
		if sc := call.Call.StaticCallee(); sc != nil && sc.Blocks != nil && sc.Pkg == scanOrOpener.Pkg {
			for _, oc := range callsIn(sc, "os", "", "Open") {
				for i, prm := range sc.Params {
					if oc.Common().Args[0] == ssa.Value(prm) {
						opened = callArgs(&call.Call)[i]
					}
				}
			}
		}
	})
	if opened != nil && resetCall.Parent() == scanOrOpener {
		args := callArgs(&resetCall.Call)
		c.Check(len(args) >= 3 && sameValue(args[2], opened), R, "Files.Scan:position-file-name", p.pos(resetCall.Pos()), "the reader is reset with the path that was opened as its file name",
			"the file name the reader is reset with is not the path that was opened: positions of results, unit metadata and syntax errors then name something that is not the file (the label, a disambiguated path#N), so a diagnostic cannot be followed to its line")
	} else {
		c.OK(R, "Files.Scan:position-file-name", p.pos(resetCall.Pos()), "no os.Open beside the reset (opened elsewhere): not decided here")
	}
}

// ---- R5 ----

func c02Progress(c *Ctx, p *Prog) {
	const R = "C02/R5"
	n := 0
	for _, fn := range p.Funcs("benchfmt") {
		file := p.Fset.Position(fn.Pos()).Filename
		if !strings.HasSuffix(file, "reader.go") && !strings.HasSuffix(file, "result.go") {
			continue
		}
		for li, lp := range naturalLoops(fn) {
			ifi, ok := lp.Header.Instrs[len(lp.Header.Instrs)-1].(*ssa.If)
			if !ok {
				continue
			}
			// condition free of calls other than len; collect the phis / slots it reads
			hasCall := false
			reads := map[ssa.Value]bool{}
			var walk func(v ssa.Value, d int)
			walk = func(v ssa.Value, d int) {
				if d > 6 {
					return
				}
				switch x := v.(type) {
				case *ssa.BinOp:
					walk(x.X, d+1)
					walk(x.Y, d+1)
				case *ssa.UnOp:
					walk(x.X, d+1)
				case *ssa.Phi:
					if x.Block() == lp.Header {
						reads[x] = true
					}
				case *ssa.Call:
					if b, ok := x.Call.Value.(*ssa.Builtin); ok && b.Name() == "len" {
						walk(x.Call.Args[0], d+1)
					} else {
						hasCall = true
					}
				case *ssa.Next, *ssa.Extract:
					hasCall = true // range loops advance by construction
				}
			}
			walk(ifi.Cond, 0)
			if hasCall || len(reads) == 0 {
				continue
			}
			n++
			// on every back edge some read phi gets a value different from itself
			okAll := true
			for pi, pr := range lp.Header.Preds {
				if !lp.Blocks[pr] {
					continue
				}
				changed := false
				for v := range reads {
					if phi := v.(*ssa.Phi); phi.Edges[pi] != phi {
						// value flows from inside the loop; it must not be the phi itself on every path (phi of phi)
						if !alwaysSelf(phi.Edges[pi], phi, 0) {
							changed = true
						}
					}
				}
				if !changed {
					okAll = false
				}
			}
			c.Check(okAll, R, fmt.Sprintf("%s:loop#%d", fnName(fn), li+1), p.pos(ifi.Pos()), "every path back to the loop head changes a variable the condition reads", "a path through this loop returns to its head without changing anything its condition reads: on some input the reader does not terminate")
		}
	}
	c.Floor(R, "call-free scanning loops", n, 3)
}

// alwaysSelf: v is phi on every path (v is phi, or a phi all of whose edges are).
func alwaysSelf(v ssa.Value, phi *ssa.Phi, d int) bool {
	if v == phi {
		return true
	}
	if d > 4 {
		return false
	}
	if x, ok := v.(*ssa.Phi); ok {
		for _, e := range x.Edges {
			if !alwaysSelf(e, phi, d+1) {
				return false
			}
		}
		return true
	}
	return false
}

// ---- R8 ----

func c02Labels(c *Ctx, p *Prog) {
	const R = "C02/R8"
	fn := p.Method("benchfmt", "Files", "init")
	if fn == nil {
		c.Undecided(R, "anchor:Files.init", "", "not found")
		return
	}
	site := p.pos(fn.Pos())
	n := 0
	for _, lp := range naturalLoops(fn) {
		start := loopBodyStart(lp)
		if start == nil {
			continue
		}
		// only the loop that builds the input list (directly, or through a helper that returns one input)
		builds := false
		returnsInput := func(f *ssa.Function) bool {
			return f != nil && f.Blocks != nil && f.Pkg == fn.Pkg && f.Signature.Results().Len() == 1 && recvName(f.Signature.Results().At(0).Type()) == "input" && len(naturalLoops(f)) == 0 && len(f.Blocks) <= 16
		}
		for b := range lp.Blocks {
			for _, in := range b.Instrs {
				if st, ok := in.(*ssa.Store); ok {
					if f, _ := fieldOfAddr(st.Addr); f != nil && f.Name() == "isLabeled" {
						builds = true
					}
				}
				if call, ok := in.(*ssa.Call); ok && returnsInput(call.Call.StaticCallee()) {
					builds = true
				}
			}
		}
		if !builds {
			continue
		}
		mk := func() *e6Interp {
			return &e6Interp{PureCall: func(f *types.Func) bool { return true }, Inline: returnsInput}
		}
		outs, why := e6Enumerate(mk, start, lp.Header, iterStop(lp, start), 64)
		if why != "" {
			c.Undecided(R, "Files.init:input-loop", site, why)
			return
		}
		for _, o := range outs {
			labelled, known := false, false
			for k, v := range o.Mem {
				if strings.HasSuffix(k, ".isLabeled") && v.isConst() {
					if b, ok := v.boolConst(); ok {
						labelled, known = b, true
					}
				}
			}
			if !known {
				continue
			}
			counted := 0
			for _, a := range o.Actions {
				if a.Kind == "mapupdate" && !strings.Contains(a.Args[0].String(), "param:") {
					counted++
				}
			}
			n++
			key := fmt.Sprintf("Files.init[labelled=%v]#%d", labelled, n)
			// what the new input is made of: unlabelled — label and path are both the whole argument; labelled — the
			// label is the argument up to its first '=' and the path what follows it
			var label, path *Sym
			for _, k := range sortedKeys(o.Mem) {
				if !strings.HasPrefix(k, "&alloc:complit") {
					continue
				}
				switch {
				case strings.HasSuffix(k, ".label"):
					label = o.Mem[k]
				case strings.HasSuffix(k, ".path"):
					path = o.Mem[k]
				}
			}
			if label != nil && path != nil {
				isArg := func(s *Sym) bool {
					return s.Op == "load" && len(s.Args) == 1 && s.Args[0].Op == "indexaddr"
				}
				isEqIndex := func(s *Sym) bool {
					return s.Op == "call" && strings.HasPrefix(s.Name, "strings.Index") && len(s.Args) == 2 && isArg(s.Args[0]) && s.Args[1].String() == "\"=\""
				}
				isCutPart := func(s *Sym, idx int) bool {
					return s.Op == "extract" && s.Idx == idx && len(s.Args) == 1 && s.Args[0].Op == "call" && strings.HasPrefix(s.Args[0].Name, "strings.Cut") && len(s.Args[0].Args) == 2 && isArg(s.Args[0].Args[0]) && s.Args[0].Args[1].String() == "\"=\""
				}
				unset := func(s *Sym) bool { return s == nil || s.String() == "zero" || s.String() == "0" }
				before := func(s *Sym) bool {
					if isCutPart(s, 0) {
						return true
					}
					return s.Op == "slice" && len(s.Args) >= 3 && isArg(s.Args[0]) && unset(s.Args[1]) && s.Args[2] != nil && isEqIndex(s.Args[2])
				}
				after := func(s *Sym) bool {
					if isCutPart(s, 1) {
						return true
					}
					if !(s.Op == "slice" && len(s.Args) >= 3 && isArg(s.Args[0]) && unset(s.Args[2]) && s.Args[1] != nil) {
						return false
					}
					lo := s.Args[1]
					return lo.Op == "binop" && lo.Tok == token.ADD && len(lo.Args) == 2 && ((isEqIndex(lo.Args[0]) && lo.Args[1].String() == "1") || (isEqIndex(lo.Args[1]) && lo.Args[0].String() == "1"))
				}
				okParts := false
				if labelled {
					okParts = before(label) && after(path)
				} else {
					okParts = isArg(label) && isArg(path) && label.String() == path.String()
				}
				c.Check(okParts, R, key+":parts", site, "label and path are the argument's two sides of its first '=' when labelled, the whole argument otherwise",
					fmt.Sprintf("with labelled=%v the new input gets label %s and path %s: an argument that is not split must keep its whole text as label and as path (a plain path containing '=' would otherwise get a truncated .file), and a split one is cut at its first '='", labelled, truncate(label.String(), 120), truncate(path.String(), 120)))
			}
			c.Check((counted == 1) == !labelled, R, key, site, fmt.Sprintf("labelled=%v, counted towards duplicates=%v", labelled, counted == 1),
				fmt.Sprintf("an input with explicit label=%v is counted %d times towards 'same path given more than once': a path given once plainly and once as label=path makes the plain one look duplicated (its results get .file \"path#0\"), or an unlabelled duplicate is not disambiguated (%s)", labelled, counted, o.AssignStr()))
		}
	}
	c.Floor(R, "input-construction paths in Files.init", n, 2)
	// the disambiguation loop skips labelled inputs: a store to an input's label in the second loop is dominated by a test of isLabeled
	nDis := 0
	eachInstr(fn, func(b *ssa.BasicBlock, in ssa.Instruction) {
		st, ok := in.(*ssa.Store)
		if !ok {
			return
		}
		f, base := fieldOfAddr(st.Addr)
		if f == nil || f.Name() != "label" {
			return
		}
		if al, _ := allocRootOfAddr(st.Addr); al != nil {
			return // building a new input
		}
		nDis++
		guarded := false
		for _, fc := range factsAt(b) {
			if fl, base2 := loadOfField(fc.Cond); fl != nil && fl.Name() == "isLabeled" && sameValue(base, base2) && !fc.True {
				guarded = true
			}
			// (isLabeled || count == 1) compiles to a chain: the isLabeled test appears as its own fact
		}
		c.Check(guarded, R, fmt.Sprintf("Files.init:relabel#%d", nDis), p.pos(st.Pos()), "relabelling happens only for inputs without an explicit label", "the disambiguation loop overwrites the label of an input whose label the user gave explicitly")
	})
	c.Floor(R, "relabelling stores in Files.init", nDis, 1)
}

// sharedAcrossIterations: a store inside a loop of a slice whose backing array was allocated outside that loop, without
// a capacity limit (three-index slice): successive iterations hand out overlapping capacity.
func sharedAcrossIterations(fn *ssa.Function, st *ssa.Store) string {
	var inner *loopInfo
	for _, lp := range naturalLoops(fn) {
		if lp.Blocks[st.Block()] && (inner == nil || len(lp.Blocks) < len(inner.Blocks)) {
			inner = lp
		}
	}
	if inner == nil {
		return ""
	}
	if sl, ok := stripConv(st.Val).(*ssa.Slice); ok && sl.Max != nil {
		return ""
	}
	if _, ok := st.Val.Type().Underlying().(*types.Slice); !ok {
		return ""
	}
	for _, r := range rootsOf(st.Val) {
		if r.Kind != rkLocal {
			continue
		}
		if in, ok := r.Val.(ssa.Instruction); ok && !inner.Blocks[in.Block()] {
			return "backing array " + r.String() + " is allocated before the loop"
		}
	}
	return ""
}

// ---- R10, R11 ----

// c02Dispatch: in the scanning loop every line is handed to exactly the recognisers: a path through one iteration
// that calls none of parseBenchmarkLine / parseUnitLine / parseKeyValueLine has decided the line's fate by some
// other test (and a configuration line that fails that test is silently dropped).
func c02Dispatch(c *Ctx, p *Prog) {
	const R = "C02/R10"
	fn := p.Method("benchfmt", "Reader", "Scan")
	if fn == nil {
		c.Undecided(R, "anchor:Reader.Scan", "", "not found")
		return
	}
	site := p.pos(fn.Pos())
	n := 0
	for _, lp := range naturalLoops(fn) {
		// the line loop: contains the scanner's Bytes call
		has := false
		for b := range lp.Blocks {
			for _, in := range b.Instrs {
				if _, ok := callIs(in, "bufio", "Scanner", "Bytes"); ok {
					has = true
				}
			}
		}
		if !has {
			continue
		}
		start := loopBodyStart(lp)
		if start == nil {
			c.Undecided(R, "Scan:line-loop", site, "loop shape not recognised")
			return
		}
		mk := func() *e6Interp { return &e6Interp{PureCall: func(f *types.Func) bool { return false }, MaxAtoms: 18} }
		outs, why := e6Enumerate(mk, start, lp.Header, iterStop(lp, start), 2048)
		if why != "" {
			c.Undecided(R, "Scan:line-loop", site, why)
			return
		}
		// a helper of the package that the loop hands the line to: every path through it must reach a recogniser
		helperOK := map[string]int{}
		judgeHelper := func(h *ssa.Function) int {
			if v, ok := helperOK[h.String()]; ok {
				return v
			}
			helperOK[h.String()] = -1
			houts, hwhy := e6Enumerate(mk, h.Blocks[0], nil, nil, 2048)
			if hwhy != "" {
				return -1
			}
			np := 0
			for _, o := range houts {
				rec := false
				for _, a := range o.Actions {
					if a.Kind == "call" && a.Callee != nil && a.Callee.Pkg() != nil && a.Callee.Pkg().Path() == bfPkg {
						switch a.Callee.Name() {
						case "parseBenchmarkLine", "parseUnitLine", "parseKeyValueLine":
							rec = true
						}
					}
				}
				if !rec {
					return -1
				}
				np++
			}
			helperOK[h.String()] = np
			return np
		}
		for _, o := range outs {
			recognised := false
			readLine := false
			for _, a := range o.Actions {
				if a.Kind == "call" && a.Callee != nil && a.Callee.Name() == "Bytes" && a.Callee.Pkg() != nil && a.Callee.Pkg().Path() == "bufio" {
					readLine = true
				}
			}
			if !readLine {
				continue // the loop condition failed: no line on this path
			}
			for _, a := range o.Actions {
				if a.Kind == "call" && a.Callee != nil && a.Callee.Pkg() != nil && a.Callee.Pkg().Path() == bfPkg {
					switch a.Callee.Name() {
					case "parseBenchmarkLine", "parseUnitLine", "parseKeyValueLine":
						recognised = true
					default:
						if h := p.SSA.FuncValue(a.Callee); h != nil && h.Blocks != nil && h.Signature.Recv() != nil && !recognised {
							if np := judgeHelper(h); np > 0 {
								recognised = true
								n += np - 1
							}
						}
					}
				}
			}
			n++
			if !recognised {
				c.Bad(R, fmt.Sprintf("Scan:unrecognised-path#%d", n), site, "a line can be dropped without having been shown to the key/value recogniser (path: "+truncate(o.AssignStr(), 200)+"): a configuration line that fails this extra test (a key starting with a non-ASCII lower-case letter, say) never sets, replaces or deletes its key")
			}
		}
	}
	if n > 0 {
		c.OK(R, "Scan:every-line-recognised", site, fmt.Sprintf("%d paths through one line all reach a line recogniser", n))
	}
	c.Floor(R, "paths through the line loop", n, 3)
}

// c02UnitKey: a unit metadata field is accepted only with a non-empty key.
func c02UnitKey(c *Ctx, p *Prog) {
	const R = "C02/R11"
	fn := p.Method("benchfmt", "Reader", "parseUnitLine")
	unitsF := p.Field("benchfmt", "Reader", "units")
	if fn == nil || unitsF == nil {
		c.Undecided(R, "anchor:Reader.parseUnitLine", "", "not found")
		return
	}
	site := p.pos(fn.Pos())
	n := 0
	for _, lp := range naturalLoops(fn) {
		start := loopBodyStart(lp)
		var pred *ssa.BasicBlock = lp.Header
		stop := map[*ssa.BasicBlock]bool{}
		if start != nil {
			stop = iterStop(lp, start)
		} else {
			start, pred, stop = lp.Header, nil, map[*ssa.BasicBlock]bool{lp.Header: true}
		}
		mk := func() *e6Interp { return &e6Interp{PureCall: func(f *types.Func) bool { return true }, MaxAtoms: 18} }
		outs, why := e6Enumerate(mk, start, pred, stop, 1024)
		if why != "" {
			c.Undecided(R, "parseUnitLine:field-loop", site, why)
			return
		}
		for _, o := range outs {
			// paths that record metadata
			var keySym *Sym
			for _, a := range o.Actions {
				if a.Kind == "mapupdate" && a.Args[0].MentionsField(unitsF) {
					keySym = a.Args[1]
				}
			}
			if keySym == nil {
				continue
			}
			n++
			// the key text: the argument of the interning call inside the map key's Key field
			var keyText *Sym
			keySym.Walk(func(s *Sym) {
				if s.Op == "call" && strings.HasSuffix(s.Name, ".intern") && len(s.Args) >= 2 && keyText == nil {
					keyText = s.Args[len(s.Args)-1]
				}
			})
			nonEmpty := false
			var bound string
			if keyText != nil {
				if keyText.Op == "slice" && len(keyText.Args) >= 3 {
					bound = keyText.Args[2].String() // f[:eq]
				}
				for _, k := range o.AtomKeys() {
					v := o.Assign[k]
					_ = v
					s := o.AtomSyms[k]
					if s.Op != "binop" || len(s.Args) != 2 {
						continue
					}
					x, y := s.Args[0], s.Args[1]
					zeroOrOne := func(z *Sym, want int64) bool {
						if z.isConst() && z.Const != nil && z.Const.Kind() == constant.Int {
							n, _ := constant.Int64Val(z.Const)
							return n == want
						}
						return false
					}
					isLen := func(z *Sym) bool {
						return z.Op == "call" && z.Name == "len" && len(z.Args) == 1 && z.Args[0].String() == keyText.String()
					}
					switch {
					case bound != "" && x.String() == bound && zeroOrOne(y, 0) && ((s.Tok == token.LEQ && !v) || (s.Tok == token.GTR && v)):
						nonEmpty = true
					case bound != "" && x.String() == bound && zeroOrOne(y, 1) && ((s.Tok == token.LSS && !v) || (s.Tok == token.GEQ && v)):
						nonEmpty = true
					case bound != "" && y.String() == bound && zeroOrOne(x, 0) && ((s.Tok == token.GEQ && !v) || (s.Tok == token.LSS && v)):
						nonEmpty = true
					case isLen(x) && zeroOrOne(y, 0) && ((s.Tok == token.EQL && !v) || (s.Tok == token.NEQ && v) || (s.Tok == token.GTR && v) || (s.Tok == token.LEQ && !v)):
						nonEmpty = true
					case isLen(y) && zeroOrOne(x, 0) && ((s.Tok == token.EQL && !v) || (s.Tok == token.NEQ && v) || (s.Tok == token.LSS && v) || (s.Tok == token.GEQ && !v)):
						nonEmpty = true
					}
				}
			}
			c.Check(nonEmpty, R, fmt.Sprintf("parseUnitLine:records-metadata#%d", n), site, "metadata is recorded only for a non-empty key",
				"unit metadata can be recorded under an empty key: a field like \"=lower\" yields a metadata record with key \"\" instead of the positioned 'expected key=value' error (path: "+truncate(o.AssignStr(), 200)+")")
		}
	}
	c.Floor(R, "paths recording unit metadata", n, 1)
}

// c02KeyStart: a configuration key may begin with any lower-case letter. Whatever a recogniser tests before it decodes
// the first character (a byte-level pre-filter) must let every such line through: evaluated for sample first bytes —
// ASCII lower-case letters and the lead bytes of multi-byte lower-case letters (µ, é, λ, д, ა, 𝒶).
func c02KeyStart(c *Ctx, p *Prog, R string) {
	n := 0
	for _, rel := range []string{"benchfmt", "storage/benchfmt"} {
		if !p.HasPkg(rel) {
			continue
		}
		fn := p.Fn(rel, "parseKeyValueLine")
		if fn == nil {
			continue
		}
		loops := naturalLoops(fn)
		if len(loops) == 0 || len(fn.Params) == 0 {
			c.Undecided(R, rel+".parseKeyValueLine:loop", p.pos(fn.Pos()), "no character loop found")
			continue
		}
		// the first loop in block order
		lp := loops[0]
		for _, l := range loops {
			if l.Header.Index < lp.Header.Index {
				lp = l
			}
		}
		line := "param:" + fn.Params[0].Name()
		for _, v := range []int64{'a', 'm', 'z', 0xC2, 0xC3, 0xCE, 0xD0, 0xE1, 0xF0} {
			v := v
			var intEval func(s *Sym) (int64, bool)
			intEval = func(s *Sym) (int64, bool) {
				switch {
				case s.Op == "const" && s.Const != nil && s.Const.Kind() == constant.Int:
					return constant.Int64Val(s.Const)
				case s.Op == "call" && s.Name == "len" && len(s.Args) == 1 && s.Args[0].String() == line:
					return 5, true
				case s.Op == "convert" && len(s.Args) == 1:
					return intEval(s.Args[0])
				case s.Op == "index" && s.Args[0].String() == line:
					if i, ok := intEval(s.Args[1]); ok && i == 0 {
						return v, true
					}
				case s.Op == "load" && s.Args[0].Op == "indexaddr" && s.Args[0].Args[0].String() == line:
					if i, ok := intEval(s.Args[0].Args[1]); ok && i == 0 {
						return v, true
					}
				case s.Op == "binop" && (s.Tok == token.ADD || s.Tok == token.SUB):
					a, ok1 := intEval(s.Args[0])
					b, ok2 := intEval(s.Args[1])
					if ok1 && ok2 {
						if s.Tok == token.ADD {
							return a + b, true
						}
						return a - b, true
					}
				}
				return 0, false
			}
			decide := func(s *Sym) (bool, bool) {
				if s.Op != "binop" {
					return false, false
				}
				a, ok1 := intEval(s.Args[0])
				b, ok2 := intEval(s.Args[1])
				if !ok1 || !ok2 {
					return false, false
				}
				switch s.Tok {
				case token.LSS:
					return a < b, true
				case token.LEQ:
					return a <= b, true
				case token.GTR:
					return a > b, true
				case token.GEQ:
					return a >= b, true
				case token.EQL:
					return a == b, true
				case token.NEQ:
					return a != b, true
				}
				return false, false
			}
			outs, why := e6Enumerate(func() *e6Interp {
				return &e6Interp{PureCall: func(f *types.Func) bool { return true }, Decide: decide, MaxAtoms: 12}
			}, fn.Blocks[0], nil, map[*ssa.BasicBlock]bool{lp.Header: true}, 256)
			key := fmt.Sprintf("%s.parseKeyValueLine:first-byte-0x%02X", rel, v)
			if why != "" && len(outs) == 0 {
				c.Undecided(R, key, p.pos(fn.Pos()), why)
				continue
			}
			n++
			rejected := false
			for _, o := range outs {
				if o.Term != "return" {
					continue
				}
				// only outcomes all of whose conditions were answered from the first byte and the length
				all := true
				for _, k := range o.AtomKeys() {
					if _, ok := decide(o.AtomSyms[k]); !ok {
						all = false
					}
				}
				if all {
					rejected = true
				}
			}
			c.Check(!rejected, R, key, p.pos(fn.Pos()), "the line reaches the character loop", fmt.Sprintf("a line whose first byte is 0x%02X is rejected before its first character is decoded: keys may begin with any lower-case letter, and for a multi-byte one (µarch, éditeur) this is its lead byte, so a configuration line the writer emits is ignored when read back", v))
		}
	}
	c.Floor(R, "first-byte samples over the key recognisers", n, 9)
}

// c02Strip (C02/R13): after a field, the separator run is consumed whole. No path on which splitField returns can be taken
// when the text it hands back still begins with white space: evaluated for the six ASCII spaces and for three multi-byte
// ones (U+0085, U+00A0, U+2003), answering every condition on the first byte, the length and unicode.IsSpace from the sample.
func c02Strip(c *Ctx, p *Prog) {
	const R = "C02/R13"
	fn := p.Fn("benchfmt", "splitField")
	if fn == nil {
		c.Undecided(R, "anchor:splitField", "", "not found")
		return
	}
	site := p.pos(fn.Pos())
	// the loops of the field splitter, and of the helpers of the package it hands a loop to (the stripping loop moved
	// into a function of its own)
	var outs []*e6Outcome
	loopHeader := map[*ssa.BasicBlock]bool{}
	cands := []*ssa.Function{fn}
	eachInstr(fn, func(_ *ssa.BasicBlock, in ssa.Instruction) {
		if call, ok := in.(*ssa.Call); ok {
			if sc := call.Call.StaticCallee(); sc != nil && sc.Blocks != nil && sc.Pkg == fn.Pkg && len(naturalLoops(sc)) > 0 {
				cands = append(cands, sc)
			}
		}
	})
	for _, g := range cands {
		os, why := regionOutcomes(g, func() *e6Interp {
			return &e6Interp{PureCall: func(f *types.Func) bool { return true }}
		}, 512)
		if why != "" {
			c.Undecided(R, "splitField:paths", site, why)
			return
		}
		outs = append(outs, os...)
		for _, lp := range naturalLoops(g) {
			loopHeader[lp.Header] = true
		}
	}
	type sample struct {
		name  string
		lead  int64
		space bool
	}
	samples := []sample{{"tab", 9, true}, {"newline", 10, true}, {"vertical tab", 11, true}, {"form feed", 12, true}, {"carriage return", 13, true}, {"blank", 32, true},
		{"U+0085", 0xC2, true}, {"U+00A0", 0xC2, true}, {"U+2003", 0xE2, true}}
	n := 0
	for _, o := range outs {
		if o.Term != "return" || len(o.Results) < 1 || len(o.Results) > 2 || len(o.Blocks) == 0 || !loopHeader[o.Blocks[0]] {
			continue
		}
		// the slice handed back is a loop variable of this region, unchanged on this path
		rest := o.Results[len(o.Results)-1]
		isLoopVar := false
		for _, in := range o.Blocks[0].Instrs {
			if phi, ok := in.(*ssa.Phi); ok {
				if _, isSl := phi.Type().Underlying().(*types.Slice); isSl && o.Val(phi).String() == rest.String() {
					isLoopVar = true
				}
			}
		}
		if !isLoopVar {
			continue
		}
		rs := rest.String()
		n++
		for _, sm := range samples {
			sm := sm
			leaf := func(s *Sym) (int64, bool) {
				switch {
				case s.Op == "call" && s.Name == "len" && len(s.Args) == 1 && s.Args[0].String() == rs:
					return 3, true
				case s.Op == "index" && s.Args[0].String() == rs:
					if i, ok := symInt(s.Args[1], func(*Sym) (int64, bool) { return 0, false }); ok && i == 0 {
						return sm.lead, true
					}
				case s.Op == "load" && s.Args[0].Op == "indexaddr" && s.Args[0].Args[0].String() == rs:
					if i, ok := symInt(s.Args[0].Args[1], func(*Sym) (int64, bool) { return 0, false }); ok && i == 0 {
						return sm.lead, true
					}
				case s.Op == "call" && strings.HasPrefix(s.Name, "unicode.IsSpace"):
					if sm.space {
						return 1, true
					}
					return 0, true
				}
				return 0, false
			}
			feasible := true
			for _, k := range o.AtomKeys() {
				v := o.Assign[k]
				_ = v
				got, ok := symInt(o.AtomSyms[k], leaf)
				if ok && (got != 0) != v {
					feasible = false
				}
			}
			key := fmt.Sprintf("splitField:return#%d:rest-begins-with-%s", n, sm.name)
			c.Check(!feasible, R, key, site, "this return cannot be taken while the rest still begins with that space", "splitField can return while the text it hands back still begins with "+sm.name+": a separator run that mixes ASCII and multi-byte spaces is only partly consumed, the next field starts with white space, and a well-formed benchmark or Unit line is reported as missing its iteration count, value or unit")
		}
	}
	c.Floor(R, "returns of the separator-stripping loop", n, 2)
}

// c02UnitLines (C02/R14): (a) a unit-metadata line is recognised by its whole first field: wherever the reader decides
// "this is a Unit line" (the recogniser's true return, or the block that calls parseUnitLine), bytes.Equal of a field
// with the "Unit" literal is known true — a prefix test takes UnitTestX ok=1 for metadata; (b) every key=value pair of
// the line is looked at: the loop over the pairs in parseUnitLine is left only where a field's length was tested
// (the end of the line), never from the middle of handling a pair.
func c02UnitLines(c *Ctx, p *Prog) {
	const R = "C02/R14"
	parse := p.Method("benchfmt", "Reader", "parseUnitLine")
	if parse == nil {
		c.Undecided(R, "anchor:parseUnitLine", "", "not found")
		return
	}
	// (a)
	isEqualUnit := func(b *ssa.BasicBlock) bool {
		for _, f := range factsAt(b) {
			call, ok := f.Cond.(*ssa.Call)
			if !ok || !f.True || !objIs(calleeObj(&call.Call), "bytes", "", "Equal") {
				continue
			}
			for _, a := range call.Call.Args {
				if g, ok := loadAddr(a).(*ssa.Global); ok {
					_ = g
					return true
				}
				if s, ok := constString(stripConv(a)); ok && s == "Unit" {
					return true
				}
			}
		}
		return false
	}
	n := 0
	for _, fn := range p.Funcs("benchfmt") {
		eachInstr(fn, func(b *ssa.BasicBlock, in ssa.Instruction) {
			call, ok := in.(*ssa.Call)
			if !ok || call.Call.StaticCallee() != parse {
				return
			}
			n++
			okHere := isEqualUnit(b)
			// or decided by a recogniser: the call sits where the recogniser's ok result is true, and the recogniser
			// returns true only under the equality
			if !okHere {
				for _, f := range factsAt(b) {
					ex, isEx := f.Cond.(*ssa.Extract)
					if !isEx || !f.True {
						continue
					}
					rc, isCall := ex.Tuple.(*ssa.Call)
					if !isCall || rc.Call.StaticCallee() == nil || rc.Call.StaticCallee().Blocks == nil {
						continue
					}
					rec := rc.Call.StaticCallee()
					all, any := true, false
					for _, rb := range rec.Blocks {
						ret, isRet := rb.Instrs[len(rb.Instrs)-1].(*ssa.Return)
						if !isRet || ex.Index >= len(ret.Results) {
							continue
						}
						if k, isK := retVal(ret, ex.Index).(*ssa.Const); isK && k.Value != nil && !constant.BoolVal(k.Value) {
							continue
						}
						any = true
						if !isEqualUnit(rb) {
							all = false
						}
					}
					if any && all {
						okHere = true
					}
				}
			}
			c.Check(okHere, R, fmt.Sprintf("%s:unit-line-recognised#%d", fnName(fn), n), p.pos(call.Pos()), "a line is handed to the unit-metadata parser only where its first field equals \"Unit\"",
				"a line reaches the unit-metadata parser without its first field having been compared, whole, with \"Unit\" (a prefix test or no test): a foreign line such as 'UnitTestX ok=1' or 'Unity build=release' then produces metadata records and errors, and can make a genuine later Unit line look like a conflict")
		})
	}
	c.Floor(R, "calls of the unit-metadata parser", n, 1)
	// (b)
	nl := 0
	for _, lp := range naturalLoops(parse) {
		nl++
		i := 0
		for _, b := range parse.Blocks {
			if !lp.Blocks[b] {
				continue
			}
			for _, s := range b.Succs {
				if lp.Blocks[s] {
					continue
				}
				i++
				okExit := false
				if ifi, ok := b.Instrs[len(b.Instrs)-1].(*ssa.If); ok {
					if bo, ok := ifi.Cond.(*ssa.BinOp); ok {
						isLen := func(v ssa.Value) bool {
							call, ok := v.(*ssa.Call)
							if !ok {
								return false
							}
							bi, ok := call.Call.Value.(*ssa.Builtin)
							return ok && bi.Name() == "len"
						}
						if isLen(bo.X) || isLen(bo.Y) {
							okExit = true
						}
					}
				}
				c.Check(okExit, R, fmt.Sprintf("parseUnitLine:pair-loop-exit#%d", i), p.pos(b.Instrs[len(b.Instrs)-1].Pos()), "the pair loop is left where a field's length was tested",
					"the loop over the key=value pairs of a Unit line can be left from the middle of handling a pair (a return or break that does not depend on the line being exhausted): the pairs after it are silently dropped — 'Unit ns/op better=lower assume=exact' loses assume=exact when better=lower was already known")
			}
		}
	}
	c.Floor(R, "loops in the unit-metadata parser", nl, 1)
}
