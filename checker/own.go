package main

// Ownership rules shared by several properties: what a long-lived object may keep from a short-lived argument.

import (
	"fmt"
	"go/token"
	"go/types"
	"strings"

	"golang.org/x/tools/go/ssa"
)

// typeHasRefs: values of t carry mutable shared storage (slices, maps, pointers; strings are immutable and do not count).
func typeHasRefs(t types.Type, depth int) bool {
	if depth > 4 {
		return true
	}
	switch u := t.Underlying().(type) {
	case *types.Slice, *types.Map, *types.Pointer, *types.Chan, *types.Signature, *types.Interface:
		return true
	case *types.Struct:
		for i := 0; i < u.NumFields(); i++ {
			if typeHasRefs(u.Field(i).Type(), depth+1) {
				return true
			}
		}
	case *types.Array:
		return typeHasRefs(u.Elem(), depth+1)
	}
	return false
}

// refComponents returns the reference-typed pieces of a stored value: the value itself when it is a slice/map/pointer,
// and for a struct value assembled in a local object, whatever was stored into that object's reference-typed fields.
// A struct copied wholesale from non-local memory is returned as is (its pointers come with it).
func refComponents(v ssa.Value) []ssa.Value {
	v = stripConv(v)
	if !typeHasRefs(v.Type(), 0) {
		return nil
	}
	if isRefType(v.Type()) {
		return []ssa.Value{v}
	}
	// struct/array value
	if u, ok := v.(*ssa.UnOp); ok && u.Op == token.MUL {
		if al, _ := allocRootOfAddr(u.X); al != nil {
			var out []ssa.Value
			for _, st := range storesInto(al) {
				out = append(out, refComponents(st.Val)...)
			}
			return out
		}
	}
	return []ssa.Value{v}
}

// retained lists, for the functions fns, every store into memory rooted at parameter selfIdx (the long-lived object:
// field stores, element stores, map updates) of a reference-typed component that is rooted anywhere else than in the
// object itself, in fresh local storage or in constants. Such a store makes the object share mutable storage with its
// argument: when the caller reuses the argument (a Reader's Result, a caller's buffer) the object's state changes too.
type retention struct {
	Fn    *ssa.Function
	Instr ssa.Instruction
	What  string
	Root  memRoot
}

func retained(fns []*ssa.Function, selfIdx int) (out []retention, nStores int) {
	for _, fn := range fns {
		if len(fn.Params) <= selfIdx {
			continue
		}
		rootedAtSelf := func(addr ssa.Value) bool {
			for _, r := range rootsOf(addr) {
				if r.Kind == rkParam && r.Idx == selfIdx {
					return true
				}
			}
			return false
		}
		check := func(in ssa.Instruction, val ssa.Value, what string) {
			nStores++
			for _, comp := range refComponents(val) {
				for _, r := range rootsOf(comp) {
					switch {
					case r.Kind == rkLocal, r.Kind == rkConst:
					case r.Kind == rkParam && r.Idx == selfIdx:
					default:
						out = append(out, retention{fn, in, what, r})
					}
				}
			}
		}
		eachInstr(fn, func(_ *ssa.BasicBlock, in ssa.Instruction) {
			switch x := in.(type) {
			case *ssa.Store:
				if al, ok := x.Addr.(*ssa.Alloc); ok && !al.Heap {
					return
				}
				if al, _ := allocRootOfAddr(x.Addr); al != nil {
					return // building a local value; judged where that value is stored
				}
				if rootedAtSelf(x.Addr) {
					check(in, x.Val, "stored into "+writeLabel(x.Addr))
				}
			case *ssa.MapUpdate:
				if rootedAtSelf(x.Map) {
					check(in, x.Value, "stored as a map value")
					check(in, x.Key, "stored as a map key")
				}
			}
		})
	}
	return
}

func (r retention) String() string {
	return fmt.Sprintf("%s: a reference rooted at %s is %s", fnName(r.Fn), r.Root, r.What)
}

// lostLoopErrors finds error values produced by a call inside a loop that reach the next iteration (through the loop
// header's phi, or through a local slot) without being compared with nil anywhere inside the loop: the error of every
// iteration but the last is overwritten unseen.
type lostErr struct {
	Fn   *ssa.Function
	Pos  token.Pos
	What string
}

func lostLoopErrors(fn *ssa.Function) (out []lostErr, nLoopErrs int) {
	errT := types.Universe.Lookup("error").Type()
	isErr := func(t types.Type) bool { return types.Identical(t, errT) }
	nilCmpIn := func(v ssa.Value, blocks map[*ssa.BasicBlock]bool) bool {
		refs := v.Referrers()
		if refs == nil {
			return false
		}
		for _, r := range *refs {
			if bo, ok := r.(*ssa.BinOp); ok && (bo.Op == token.EQL || bo.Op == token.NEQ) && blocks[bo.Block()] {
				return true
			}
			if ret, ok := r.(*ssa.Return); ok && blocks[ret.Block()] {
				return true // returned from inside the loop
			}
		}
		return false
	}
	fromCall := func(v ssa.Value) bool {
		switch x := v.(type) {
		case *ssa.Call:
			return true
		case *ssa.Extract:
			_, ok := x.Tuple.(*ssa.Call)
			return ok
		}
		return false
	}
	for _, lp := range naturalLoops(fn) {
		for b := range lp.Blocks {
			for _, in := range b.Instrs {
				if v, ok := in.(ssa.Value); ok && isErr(v.Type()) && fromCall(v) {
					nLoopErrs++
				}
			}
		}
		for _, in := range lp.Header.Instrs {
			phi, ok := in.(*ssa.Phi)
			if !ok {
				break
			}
			if !isErr(phi.Type()) {
				continue
			}
			for i, e := range phi.Edges {
				if !lp.Blocks[lp.Header.Preds[i]] || e == phi {
					continue
				}
				// values merged inside the loop body
				var cands []ssa.Value
				var walk func(v ssa.Value, d int)
				walk = func(v ssa.Value, d int) {
					if d > 4 {
						return
					}
					if p2, ok := v.(*ssa.Phi); ok && p2 != phi && lp.Blocks[p2.Block()] {
						for _, e2 := range p2.Edges {
							walk(e2, d+1)
						}
						return
					}
					cands = append(cands, v)
				}
				walk(e, 0)
				for _, v := range cands {
					vi, ok := v.(ssa.Instruction)
					if !ok || !lp.Blocks[vi.Block()] || !fromCall(v) {
						continue
					}
					if nilCmpIn(v, lp.Blocks) || nilCmpIn(phi, lp.Blocks) {
						continue
					}
					out = append(out, lostErr{fn, v.Pos(), "the error assigned to " + phi.Comment + " inside the loop is not tested before the next iteration overwrites it"})
				}
			}
		}
	}
	return
}

// upperBound derives a finite upper bound of a non-negative integer value from constants, string-table lookups and
// arithmetic; ok=false when no bound follows from the code (then nothing is claimed).
func upperBound(v ssa.Value, depth int) (int64, bool) {
	if depth > 8 {
		return 0, false
	}
	switch x := v.(type) {
	case *ssa.Const:
		return constInt(x)
	case *ssa.Convert:
		return upperBound(x.X, depth+1)
	case *ssa.ChangeType:
		return upperBound(x.X, depth+1)
	case *ssa.BinOp:
		a, ok1 := upperBound(x.X, depth+1)
		b, ok2 := upperBound(x.Y, depth+1)
		switch x.Op {
		case token.ADD:
			if ok1 && ok2 {
				return a + b, true
			}
		case token.MUL:
			if ok1 && ok2 && a >= 0 && b >= 0 {
				return a * b, true
			}
		case token.REM:
			if ok2 && b > 0 {
				return b - 1, true
			}
		case token.AND:
			if ok2 && b >= 0 {
				return b, true
			}
			if ok1 && a >= 0 {
				return a, true
			}
		}
	case *ssa.Phi:
		var m int64
		for _, e := range x.Edges {
			if e == v {
				return 0, false
			}
			b, ok := upperBound(e, depth+1)
			if !ok {
				return 0, false
			}
			if b > m {
				m = b
			}
		}
		return m, true
	case *ssa.Call:
		co := calleeObj(&x.Call)
		if objIs(co, "strings", "", "IndexByte") || objIs(co, "strings", "", "Index") || objIs(co, "strings", "", "IndexRune") || objIs(co, "bytes", "", "IndexByte") {
			if s, ok := constString(x.Call.Args[0]); ok {
				return int64(len(s)) - 1, true
			}
		}
		if b, ok := x.Call.Value.(*ssa.Builtin); ok && b.Name() == "len" {
			if s, ok := constString(x.Call.Args[0]); ok {
				return int64(len(s)), true
			}
		}
	}
	return 0, false
}

// shiftOverflows lists left shifts whose amount provably reaches the width of the shifted integer type for an
// attainable input (the bound comes from a literal table's length): the result is then 0, not a power of two.
type shiftOverflow struct {
	Instr *ssa.BinOp
	Max   int64
	Width int64
}

func shiftOverflows(fn *ssa.Function, sizes types.Sizes) (out []shiftOverflow, nShifts int) {
	eachInstr(fn, func(_ *ssa.BasicBlock, in ssa.Instruction) {
		bo, ok := in.(*ssa.BinOp)
		if !ok || bo.Op != token.SHL {
			return
		}
		if _, isConst := bo.Y.(*ssa.Const); isConst {
			return
		}
		nShifts++
		w := sizes.Sizeof(bo.Type()) * 8
		if m, ok := upperBound(bo.Y, 0); ok && m >= w {
			out = append(out, shiftOverflow{bo, m, w})
		}
	})
	return
}

// refillAliases finds, in a loop, a slice that is truncated and refilled in place (append onto s[:0]) although another
// loop-carried variable received that same slice at the end of the previous iteration and is still read in this one:
// the appends overwrite the elements being read.
type refillAlias struct {
	Append ssa.Instruction
	Read   ssa.Instruction
	Names  [2]string
}

func refillAliases(fn *ssa.Function) (out []refillAlias, nLoops int) {
	for _, lp := range naturalLoops(fn) {
		var phis []*ssa.Phi
		for _, in := range lp.Header.Instrs {
			if phi, ok := in.(*ssa.Phi); ok {
				if _, isSl := phi.Type().Underlying().(*types.Slice); isSl {
					phis = append(phis, phi)
				}
			} else {
				break
			}
		}
		if len(phis) < 2 {
			continue
		}
		nLoops++
		backVal := func(phi *ssa.Phi) ssa.Value {
			for i, pr := range lp.Header.Preds {
				if lp.Blocks[pr] {
					return phi.Edges[i]
				}
			}
			return nil
		}
		// base traces a slice value back (through re-slicing, appends and phis inside the loop) to header phis of lp
		var base func(v ssa.Value, seen map[ssa.Value]bool, viaTrunc bool, acc map[*ssa.Phi]bool)
		base = func(v ssa.Value, seen map[ssa.Value]bool, viaTrunc bool, acc map[*ssa.Phi]bool) {
			if v == nil || seen[v] {
				return
			}
			seen[v] = true
			switch x := v.(type) {
			case *ssa.Phi:
				if x.Block() == lp.Header {
					acc[x] = true
					return
				}
				for _, e := range x.Edges {
					base(e, seen, viaTrunc, acc)
				}
			case *ssa.Slice:
				base(x.X, seen, viaTrunc, acc)
			case *ssa.Call:
				if b, ok := x.Call.Value.(*ssa.Builtin); ok && b.Name() == "append" {
					base(x.Call.Args[0], seen, viaTrunc, acc)
				}
			case *ssa.ChangeType:
				base(x.X, seen, viaTrunc, acc)
			}
		}
		for b := range lp.Blocks {
			for _, in := range b.Instrs {
				call, ok := in.(*ssa.Call)
				if !ok {
					continue
				}
				bi, ok := call.Call.Value.(*ssa.Builtin)
				if !ok || bi.Name() != "append" {
					continue
				}
				wr := map[*ssa.Phi]bool{}
				base(call.Call.Args[0], map[ssa.Value]bool{}, false, wr)
				for pw := range wr {
					// another header phi fed by the same value at the back edge
					for _, pr := range phis {
						if pr == pw {
							continue
						}
						bw, br := backVal(pw), backVal(pr)
						if bw == nil || br == nil {
							continue
						}
						same := bw == br
						if !same {
							a1, a2 := map[*ssa.Phi]bool{}, map[*ssa.Phi]bool{}
							_ = a1
							_ = a2
						}
						if !same {
							continue
						}
						// is pr read inside the loop?
						for b2 := range lp.Blocks {
							for _, in2 := range b2.Instrs {
								ia, ok := in2.(*ssa.IndexAddr)
								if !ok {
									continue
								}
								rd := map[*ssa.Phi]bool{}
								base(ia.X, map[ssa.Value]bool{}, false, rd)
								if rd[pr] {
									out = append(out, refillAlias{call, ia, [2]string{pw.Comment, pr.Comment}})
								}
							}
						}
					}
				}
			}
		}
	}
	// one report per (append, pair)
	seen := map[string]bool{}
	var uniq []refillAlias
	for _, r := range out {
		k := fmt.Sprintf("%d|%s|%s", r.Append.Pos(), r.Names[0], r.Names[1])
		if !seen[k] {
			seen[k] = true
			uniq = append(uniq, r)
		}
	}
	return uniq, nLoops
}

// stringPieces collects the constant pieces (literals and Sprintf formats) that flow into a string value through
// concatenation and control-flow merges, i.e. every literal that can precede the point where v is used.
func stringPieces(v ssa.Value) []string {
	var out []string
	seen := map[ssa.Value]bool{}
	var walk func(v ssa.Value, d int)
	walk = func(v ssa.Value, d int) {
		if v == nil || seen[v] || d > 60 {
			return
		}
		seen[v] = true
		switch x := v.(type) {
		case *ssa.Const:
			if s, ok := constString(x); ok {
				out = append(out, s)
			}
		case *ssa.BinOp:
			if x.Op == token.ADD {
				walk(x.X, d+1)
				walk(x.Y, d+1)
			}
		case *ssa.Phi:
			for _, e := range x.Edges {
				walk(e, d+1)
			}
		case *ssa.Call:
			if objIs(calleeObj(&x.Call), "fmt", "", "Sprintf") && len(x.Call.Args) > 0 {
				walk(x.Call.Args[0], d+1)
			}
		case *ssa.UnOp:
			if al, ok := x.X.(*ssa.Alloc); ok && x.Op == token.MUL {
				for _, r := range *al.Referrers() {
					if st, ok := r.(*ssa.Store); ok && st.Addr == al {
						walk(st.Val, d+1)
					}
				}
			}
		}
	}
	walk(v, 0)
	return out
}

// digitLoop: a loop that peels digits off an integer least-significant first (x % K ... x /= K).
type digitLoop struct {
	Fn      *ssa.Function
	Rem     *ssa.BinOp
	Base    int64
	Verdict string // "backwards" (stored at a decreasing position), "reversed" (appended, reversed afterwards), "forwards", "unknown"
}

// digitLoops finds the digit-peeling loops of fn and classifies where each digit is put. Digits that come out least
// significant first read correctly only when they are stored from the end of the buffer towards its start, or the
// buffer is reversed before use.
func digitLoops(fn *ssa.Function) []digitLoop {
	var out []digitLoop
	for _, lp := range naturalLoops(fn) {
		for _, in := range lp.Header.Instrs {
			phi, ok := in.(*ssa.Phi)
			if !ok || !isInteger(phi.Type()) {
				continue
			}
			// back edge: phi / K
			var base int64
			for i, e := range phi.Edges {
				if !lp.Blocks[lp.Header.Preds[i]] {
					continue
				}
				if q, ok := e.(*ssa.BinOp); ok && q.Op == token.QUO && q.X == ssa.Value(phi) {
					if k, ok := constInt(q.Y); ok && k >= 2 {
						base = k
					}
				}
			}
			if base == 0 {
				continue
			}
			for b := range lp.Blocks {
				for _, in2 := range b.Instrs {
					rem, ok := in2.(*ssa.BinOp)
					if !ok || rem.Op != token.REM || rem.X != ssa.Value(phi) {
						continue
					}
					if k, ok := constInt(rem.Y); !ok || k != base {
						continue
					}
					out = append(out, digitLoop{fn, rem, base, digitPlacement(lp, rem)})
				}
			}
		}
	}
	return out
}

func digitPlacement(lp *loopInfo, rem *ssa.BinOp) string {
	// values derived from the digit
	derived := map[ssa.Value]bool{rem: true}
	for changed := true; changed; {
		changed = false
		for b := range lp.Blocks {
			for _, in := range b.Instrs {
				v, ok := in.(ssa.Value)
				if !ok || derived[v] {
					continue
				}
				if _, isPhi := in.(*ssa.Phi); isPhi {
					continue
				}
				var ops []*ssa.Value
				for _, o := range in.Operands(ops) {
					if *o != nil && derived[*o] {
						switch in.(type) {
						case *ssa.BinOp, *ssa.Convert, *ssa.UnOp, *ssa.IndexAddr, *ssa.Index, *ssa.ChangeType:
							derived[v] = true
							changed = true
						}
					}
				}
			}
		}
	}
	decreasing := func(idx ssa.Value) bool {
		// idx is (or is one step from) an integer loop variable whose back edge subtracts a constant
		var phis []*ssa.Phi
		switch x := idx.(type) {
		case *ssa.Phi:
			phis = append(phis, x)
		case *ssa.BinOp:
			if ph, ok := x.X.(*ssa.Phi); ok && (x.Op == token.SUB || x.Op == token.ADD) {
				phis = append(phis, ph)
			}
		}
		for _, ph := range phis {
			if ph.Block() != lp.Header {
				continue
			}
			for i, e := range ph.Edges {
				if !lp.Blocks[lp.Header.Preds[i]] {
					continue
				}
				if bo, ok := e.(*ssa.BinOp); ok && bo.Op == token.SUB && bo.X == ssa.Value(ph) {
					if k, ok := constInt(bo.Y); ok && k > 0 {
						return true
					}
				}
			}
		}
		return false
	}
	verdict := "unknown"
	for b := range lp.Blocks {
		for _, in := range b.Instrs {
			switch x := in.(type) {
			case *ssa.Store:
				if !derived[x.Val] {
					continue
				}
				ia, ok := x.Addr.(*ssa.IndexAddr)
				if !ok {
					continue
				}
				if _, isConst := ia.Index.(*ssa.Const); isConst {
					// the one-element argument array of an append
					continue
				}
				if decreasing(ia.Index) {
					verdict = "backwards"
				} else {
					return "forwards"
				}
			case *ssa.Call:
				bi, ok := x.Call.Value.(*ssa.Builtin)
				if !ok || bi.Name() != "append" || len(x.Call.Args) != 2 {
					continue
				}
				// append(buf, digit): the variadic slice holds a derived value
				holds := false
				if sl, ok := x.Call.Args[1].(*ssa.Slice); ok {
					if al, ok := sl.X.(*ssa.Alloc); ok {
						for _, r := range *al.Referrers() {
							if ia, ok := r.(*ssa.IndexAddr); ok {
								for _, r2 := range *ia.Referrers() {
									if st, ok := r2.(*ssa.Store); ok && derived[st.Val] {
										holds = true
									}
								}
							}
						}
					}
				}
				if !holds {
					continue
				}
				if _, isPhi := x.Call.Args[0].(*ssa.Phi); !isPhi {
					continue
				}
				// appended least-significant first: fine only if the buffer is reversed after the loop
				reversed := false
				fn := x.Parent()
				eachInstr(fn, func(bb *ssa.BasicBlock, in3 ssa.Instruction) {
					if lp.Blocks[bb] {
						return
					}
					if call, ok := in3.(*ssa.Call); ok {
						if f := calleeObj(&call.Call); f != nil && f.Name() == "Reverse" && f.Pkg() != nil && (f.Pkg().Path() == "slices" || f.Pkg().Path() == "sort") {
							reversed = true
						}
					}
				})
				// or by a swap loop after it (two index variables moving towards each other)
				for _, lp2 := range naturalLoops(fn) {
					if lp2 == lp || lp.Blocks[lp2.Header] {
						continue
					}
					up, down := false, false
					for _, in3 := range lp2.Header.Instrs {
						if ph, ok := in3.(*ssa.Phi); ok && isInteger(ph.Type()) {
							for i, e := range ph.Edges {
								if lp2.Blocks[lp2.Header.Preds[i]] {
									if bo, ok := e.(*ssa.BinOp); ok && bo.X == ssa.Value(ph) {
										up = up || bo.Op == token.ADD
										down = down || bo.Op == token.SUB
									}
								}
							}
						}
					}
					if up && down {
						reversed = true
					}
				}
				if reversed {
					verdict = "reversed"
				} else {
					return "forwards"
				}
			}
		}
	}
	return verdict
}

// byteAsRune lists calls of unicode predicates (or utf8 validity tests) on a single byte widened to a rune: for bytes at or
// above 0x80 the byte is a fragment of a multi-byte character, not a code point (0x85 and 0xA0 are "spaces" in Latin-1, so a
// continuation byte of à, Å or 内 would split a token). A call dominated by a test that the byte is below 0x80 is fine.
func byteAsRune(fn *ssa.Function) []*ssa.Call {
	var out []*ssa.Call
	eachInstr(fn, func(b *ssa.BasicBlock, in ssa.Instruction) {
		call, ok := in.(*ssa.Call)
		if !ok {
			return
		}
		f := calleeObj(&call.Call)
		if f == nil || f.Pkg() == nil || f.Pkg().Path() != "unicode" || len(call.Call.Args) == 0 {
			return
		}
		cv, ok := call.Call.Args[0].(*ssa.Convert)
		if !ok {
			return
		}
		bt, ok := cv.X.Type().Underlying().(*types.Basic)
		if !ok || bt.Kind() != types.Uint8 {
			return
		}
		// guarded by b < 0x80 (or b <= 0x7f, or its negation on the false edge)?
		for _, fc := range factsAt(b) {
			bo, ok := fc.Cond.(*ssa.BinOp)
			if !ok {
				continue
			}
			lim := func(v ssa.Value) (int64, bool) { return constInt(v) }
			switch {
			case bo.X == cv.X || bo.X == ssa.Value(cv):
				if k, ok := lim(bo.Y); ok {
					if (fc.True && ((bo.Op == token.LSS && k <= 0x80) || (bo.Op == token.LEQ && k < 0x80))) || (!fc.True && ((bo.Op == token.GEQ && k <= 0x80) || (bo.Op == token.GTR && k < 0x80))) {
						return
					}
				}
			case bo.Y == cv.X || bo.Y == ssa.Value(cv):
				if k, ok := lim(bo.X); ok {
					if (fc.True && ((bo.Op == token.GTR && k <= 0x80) || (bo.Op == token.GEQ && k < 0x80))) || (!fc.True && ((bo.Op == token.LEQ && k <= 0x80) || (bo.Op == token.LSS && k < 0x80))) {
						return
					}
				}
			}
		}
		out = append(out, call)
	})
	return out
}

// byteRuneRule applies byteAsRune to the given packages, with the stored positive control.
func byteRuneRule(c *Ctx, p *Prog, R string, rels ...string) {
	nF, n := 0, 0
	for _, fn := range p.Funcs(rels...) {
		nF++
		for _, call := range byteAsRune(fn) {
			n++
			c.Bad(R, fmt.Sprintf("%s:byte-as-rune#%d", fnName(fn), n), p.pos(call.Pos()), "a single byte of the text is widened to a rune and classified with unicode."+calleeObj(&call.Call).Name()+": bytes at or above 0x80 are fragments of multi-byte characters, and the Latin-1 code points 0x85 and 0xA0 are spaces, so the continuation byte of à, Å or 内 splits a word while a real multi-byte space no longer does")
		}
	}
	c.OK(R, "byte-as-rune:none", "", fmt.Sprintf("%d functions, no unicode predicate applied to a lone byte", nF))
	ctl := mustLoad(c, loadOpts{dir: c.HomeDir + "/checker"}, "./testdata/lookbehind")
	nCtl := 0
	for _, fn := range ctl.Funcs("perfcheck/testdata/lookbehind") {
		nCtl += len(byteAsRune(fn))
	}
	if nCtl != 1 {
		c.Undecided(R, "positive-control", "", fmt.Sprintf("the byte-as-rune matcher finds %d instances in its control file, expected exactly 1 (one unguarded, one guarded)", nCtl))
	} else {
		c.OK(R, "positive-control", "checker/testdata/lookbehind/lb.go", "matcher fires on the unguarded stored example and not on the guarded one")
	}
}

// spliceLoop: a loop that rewrites a string in place, piece by piece, at positions recorded beforehand.
type spliceLoop struct {
	Fn      *ssa.Function
	Pos     token.Pos
	Verdict string // "backwards", "shifted", "unshifted", "unknown"
}

// spliceLoops finds loops whose loop-carried string S becomes S[:a] + r + S[b:]. Positions recorded against the original
// string stay valid only if the pieces are replaced from the last to the first, or if every position is corrected by the
// accumulated change in length of the replacements made so far.
func spliceLoops(fn *ssa.Function) []spliceLoop {
	var out []spliceLoop
	for _, lp := range naturalLoops(fn) {
		for _, in := range lp.Header.Instrs {
			phi, ok := in.(*ssa.Phi)
			if !ok || !isString(phi.Type()) {
				continue
			}
			// back-edge value: a concatenation containing slices of phi
			var back ssa.Value
			for i, e := range phi.Edges {
				if lp.Blocks[lp.Header.Preds[i]] {
					back = e
				}
			}
			if back == nil {
				continue
			}
			var head, tail *ssa.Slice
			var walk func(v ssa.Value, d int)
			walk = func(v ssa.Value, d int) {
				if d > 6 {
					return
				}
				switch x := v.(type) {
				case *ssa.BinOp:
					if x.Op == token.ADD {
						walk(x.X, d+1)
						walk(x.Y, d+1)
					}
				case *ssa.Slice:
					if x.X == ssa.Value(phi) {
						if x.Low == nil && x.High != nil {
							head = x
						}
						if x.Low != nil && x.High == nil {
							tail = x
						}
					}
				}
			}
			walk(back, 0)
			if head == nil || tail == nil {
				continue
			}
			sl := spliceLoop{Fn: fn, Pos: head.Pos(), Verdict: "unknown"}
			// direction of the loop's integer induction variable(s)
			down, up := false, false
			var accs []*ssa.Phi
			for _, in2 := range lp.Header.Instrs {
				ip, ok := in2.(*ssa.Phi)
				if !ok || !isInteger(ip.Type()) {
					continue
				}
				for i, e := range ip.Edges {
					if !lp.Blocks[lp.Header.Preds[i]] {
						continue
					}
					bo, ok := e.(*ssa.BinOp)
					if !ok {
						continue
					}
					if _, isK := bo.Y.(*ssa.Const); isK && bo.X == ssa.Value(ip) {
						if bo.Op == token.SUB {
							down = true
						}
						if bo.Op == token.ADD {
							up = true
						}
						continue
					}
					// an accumulator: its next value depends on itself and on something else
					if dependsOn(e, ip, 0) {
						accs = append(accs, ip)
					}
				}
			}
			switch {
			case down && !up:
				sl.Verdict = "backwards"
			case up && !down:
				sl.Verdict = "unshifted"
				for _, a := range accs {
					if dependsOn(head.High, a, 0) {
						sl.Verdict = "shifted"
					}
				}
			}
			out = append(out, sl)
		}
	}
	return out
}

// dependsOn: v is computed (through arithmetic and conversions) from w.
func dependsOn(v, w ssa.Value, d int) bool {
	if v == w {
		return true
	}
	if d > 8 {
		return false
	}
	switch x := v.(type) {
	case *ssa.BinOp:
		return dependsOn(x.X, w, d+1) || dependsOn(x.Y, w, d+1)
	case *ssa.Convert:
		return dependsOn(x.X, w, d+1)
	case *ssa.UnOp:
		if x.Op == token.SUB {
			return dependsOn(x.X, w, d+1)
		}
	}
	return false
}

// assembledStrings enumerates the texts a string value can be assembled to: concatenations in order, one alternative per
// incoming edge of a phi (cycles cut), Sprintf by its format, anything else as "\x00". At most max alternatives.
func assembledStrings(v ssa.Value, max int) []string {
	var build func(v ssa.Value, onPath map[ssa.Value]bool, d int) []string
	build = func(v ssa.Value, onPath map[ssa.Value]bool, d int) []string {
		if v == nil || d > 40 || onPath[v] {
			return []string{"\x00"}
		}
		switch x := v.(type) {
		case *ssa.Const:
			if s, ok := constString(x); ok {
				return []string{s}
			}
		case *ssa.BinOp:
			if x.Op == token.ADD {
				var out []string
				for _, a := range build(x.X, onPath, d+1) {
					for _, b := range build(x.Y, onPath, d+1) {
						if len(out) < max {
							out = append(out, a+b)
						}
					}
				}
				return out
			}
		case *ssa.Phi:
			onPath[v] = true
			var out []string
			for _, e := range x.Edges {
				for _, s := range build(e, onPath, d+1) {
					if len(out) < max {
						out = append(out, s)
					}
				}
			}
			delete(onPath, v)
			return out
		case *ssa.Call:
			if objIs(calleeObj(&x.Call), "fmt", "", "Sprintf") && len(x.Call.Args) > 0 {
				return build(x.Call.Args[0], onPath, d+1)
			}
		case *ssa.UnOp:
			if al, ok := x.X.(*ssa.Alloc); ok && x.Op == token.MUL {
				onPath[v] = true
				var out []string
				for _, r := range *al.Referrers() {
					if st, ok := r.(*ssa.Store); ok && st.Addr == ssa.Value(al) {
						for _, s := range build(st.Val, onPath, d+1) {
							if len(out) < max {
								out = append(out, s)
							}
						}
					}
				}
				delete(onPath, v)
				if len(out) > 0 {
					return out
				}
			}
		}
		return []string{"\x00"}
	}
	return build(v, map[ssa.Value]bool{}, 0)
}

// stuckLoops: loops that read a token from a cursor held in a local slot (a method called on the slot) and can return to
// their head without having stored a new cursor into it: the next iteration reads the same token again, for ever.
func stuckLoops(fn *ssa.Function, isCursor func(types.Type) bool) (stuck []ssa.Instruction, nLoops int) {
	for _, lp := range naturalLoops(fn) {
		// the cursor slots read in this loop
		slots := map[*ssa.Alloc]ssa.Instruction{}
		for b := range lp.Blocks {
			for _, in := range b.Instrs {
				call, ok := in.(*ssa.Call)
				if !ok || len(call.Call.Args) == 0 {
					continue
				}
				al, ok := call.Call.Args[0].(*ssa.Alloc)
				if !ok || lp.Blocks[al.Block()] {
					continue
				}
				if pt, ok := al.Type().(*types.Pointer); ok && isCursor(pt.Elem()) {
					slots[al] = in
				}
			}
		}
		for al, at := range slots {
			// only loops that do advance the cursor somewhere
			advances := false
			for b := range lp.Blocks {
				for _, in := range b.Instrs {
					if st, ok := in.(*ssa.Store); ok && st.Addr == ssa.Value(al) {
						advances = true
					}
				}
			}
			if !advances {
				continue
			}
			nLoops++
			start := loopBodyStart(lp)
			if start == nil {
				start = lp.Header
			}
			stores := func(b *ssa.BasicBlock) bool {
				for _, in := range b.Instrs {
					if st, ok := in.(*ssa.Store); ok && st.Addr == ssa.Value(al) {
						return true
					}
				}
				return false
			}
			seen := map[*ssa.BasicBlock]bool{}
			work := []*ssa.BasicBlock{start}
			first := true
			found := false
			for len(work) > 0 && !found {
				b := work[len(work)-1]
				work = work[:len(work)-1]
				if !lp.Blocks[b] || (seen[b] && !(b == lp.Header && first)) {
					continue
				}
				if b == lp.Header && !first {
					found = true
					break
				}
				first = false
				seen[b] = true
				if stores(b) {
					continue
				}
				for _, s := range b.Succs {
					if s == lp.Header {
						found = true
					}
					work = append(work, s)
				}
			}
			if found {
				stuck = append(stuck, at)
			}
		}
	}
	return
}

// staleGuard: an element read s[b+o] that is dominated by a bounds test on the same base b, b+g < len(s), with g < o: the
// code took the trouble to check the bound and then moved past what it checked (typically by incrementing the index
// between the test and the read).
type staleGuard struct {
	Read    ssa.Instruction
	Offset  int64
	Guarded int64
}

func staleGuards(fn *ssa.Function) (out []staleGuard, nReads int) {
	type pair struct {
		base ssa.Value
		off  int64
	}
	var expand func(v ssa.Value, d int) []pair
	expand = func(v ssa.Value, d int) []pair {
		if d > 5 {
			return []pair{{v, 0}}
		}
		switch x := v.(type) {
		case *ssa.BinOp:
			if k, ok := constInt(x.Y); ok && (x.Op == token.ADD || x.Op == token.SUB) {
				if x.Op == token.SUB {
					k = -k
				}
				var ps []pair
				for _, q := range expand(x.X, d+1) {
					ps = append(ps, pair{q.base, q.off + k})
				}
				return ps
			}
			if k, ok := constInt(x.X); ok && x.Op == token.ADD {
				var ps []pair
				for _, q := range expand(x.Y, d+1) {
					ps = append(ps, pair{q.base, q.off + k})
				}
				return ps
			}
		case *ssa.Phi:
			// only merges after a conditional step (not loop headers, whose back edge would run away)
			for _, lp := range naturalLoops(x.Parent()) {
				if lp.Header == x.Block() {
					return []pair{{v, 0}}
				}
			}
			var ps []pair
			for _, e := range x.Edges {
				if e == v {
					continue
				}
				ps = append(ps, expand(e, d+1)...)
			}
			if len(ps) > 0 && len(ps) <= 8 {
				return ps
			}
		}
		return []pair{{v, 0}}
	}
	lenOf := func(v ssa.Value) ssa.Value {
		call, ok := v.(*ssa.Call)
		if !ok {
			return nil
		}
		if bi, ok := call.Call.Value.(*ssa.Builtin); ok && bi.Name() == "len" {
			return call.Call.Args[0]
		}
		return nil
	}
	eachInstr(fn, func(b *ssa.BasicBlock, in ssa.Instruction) {
		var coll, idx ssa.Value
		switch x := in.(type) {
		case *ssa.Index:
			coll, idx = x.X, x.Index
		case *ssa.IndexAddr:
			coll, idx = x.X, x.Index
		case *ssa.Lookup:
			if isString(x.X.Type()) {
				coll, idx = x.X, x.Index
			}
		}
		if coll == nil {
			return
		}
		if _, isConst := idx.(*ssa.Const); isConst {
			return
		}
		nReads++
		reads := expand(idx, 0)
		// guards in force here: base + g < len(coll)
		guards := map[ssa.Value]int64{}
		have := map[ssa.Value]bool{}
		for _, f := range factsAt(b) {
			bo, ok := f.Cond.(*ssa.BinOp)
			if !ok {
				continue
			}
			var lhs ssa.Value
			switch {
			case lenOf(bo.Y) != nil && sameValue(lenOf(bo.Y), coll) && ((bo.Op == token.LSS && f.True) || (bo.Op == token.GEQ && !f.True)):
				lhs = bo.X
			case lenOf(bo.X) != nil && sameValue(lenOf(bo.X), coll) && ((bo.Op == token.GTR && f.True) || (bo.Op == token.LEQ && !f.True)):
				lhs = bo.Y
			default:
				continue
			}
			for _, q := range expand(lhs, 0) {
				if !have[q.base] || q.off > guards[q.base] {
					guards[q.base], have[q.base] = q.off, true
				}
			}
		}
		for _, r := range reads {
			if have[r.base] && r.off > guards[r.base] {
				out = append(out, staleGuard{in, r.off, guards[r.base]})
				return
			}
		}
	})
	return
}

// writesThrough: the instructions of fn that write into the storage of one of the given slice values or of a reslice /
// append result / phi of them: append or copy with it as destination, a store into an element, a sort of it.
func writesThrough(fn *ssa.Function, roots []ssa.Value) (out []ssa.Instruction, what []string) {
	tainted := map[ssa.Value]bool{}
	for _, r := range roots {
		tainted[r] = true
	}
	for changed := true; changed; {
		changed = false
		eachInstr(fn, func(_ *ssa.BasicBlock, in ssa.Instruction) {
			v, ok := in.(ssa.Value)
			if !ok || tainted[v] {
				return
			}
			switch x := in.(type) {
			case *ssa.Slice:
				if tainted[x.X] {
					tainted[v], changed = true, true
				}
			case *ssa.ChangeType:
				if tainted[x.X] {
					tainted[v], changed = true, true
				}
			case *ssa.Phi:
				for _, e := range x.Edges {
					if tainted[e] {
						tainted[v], changed = true, true
					}
				}
			case *ssa.Call:
				if bi, ok := x.Call.Value.(*ssa.Builtin); ok && bi.Name() == "append" && tainted[x.Call.Args[0]] {
					tainted[v], changed = true, true
				}
			}
		})
	}
	eachInstr(fn, func(_ *ssa.BasicBlock, in ssa.Instruction) {
		w := ""
		switch x := in.(type) {
		case *ssa.Call:
			if bi, ok := x.Call.Value.(*ssa.Builtin); ok {
				if (bi.Name() == "append" || bi.Name() == "copy") && tainted[x.Call.Args[0]] {
					w = bi.Name() + "s onto"
				}
			} else if len(x.Call.Args) > 0 && isSortCallShallow(&x.Call) {
				a := x.Call.Args[0]
				if mi, ok := a.(*ssa.MakeInterface); ok {
					a = mi.X
				}
				if tainted[a] {
					w = "sorts"
				}
			}
		case *ssa.Store:
			if ia, ok := x.Addr.(*ssa.IndexAddr); ok && tainted[ia.X] {
				w = "stores into"
			}
		}
		if w != "" {
			out = append(out, in)
			what = append(what, w)
		}
	})
	return
}

// scratchGlobals: calls in fn that hand the storage of a package-level array or slice variable (accepted by isOurs)
// to something that writes into its first argument: append, copy, the Append* family of the standard library.
func scratchGlobals(fn *ssa.Function, isOurs func(*ssa.Global) bool, foreign func(*types.Func) bool) (out []ssa.Instruction, globals []*ssa.Global, writers []string) {
	eachInstr(fn, func(_ *ssa.BasicBlock, in ssa.Instruction) {
		ci, ok := in.(ssa.CallInstruction)
		if !ok || len(ci.Common().Args) == 0 {
			return
		}
		writer := ""
		if bi, ok := ci.Common().Value.(*ssa.Builtin); ok && (bi.Name() == "append" || bi.Name() == "copy") {
			writer = bi.Name()
		} else if co := calleeObj(ci.Common()); co != nil && co.Pkg() != nil && foreign(co) && strings.HasPrefix(co.Name(), "Append") {
			writer = co.FullName()
		}
		if writer == "" {
			return
		}
		dst := ci.Common().Args[0]
		if _, isSlice := dst.Type().Underlying().(*types.Slice); !isSlice {
			return
		}
		var g *ssa.Global
		v := dst
		for i := 0; i < 6 && g == nil; i++ {
			switch x := v.(type) {
			case *ssa.Slice:
				v = x.X
			case *ssa.UnOp:
				if x.Op == token.MUL {
					v = x.X
				} else {
					i = 6
				}
			case *ssa.Global:
				g = x
			default:
				i = 6
			}
		}
		if g == nil || !isOurs(g) {
			return
		}
		out = append(out, in)
		globals = append(globals, g)
		writers = append(writers, writer)
	})
	return
}

// loopCapturedWrites: closures started as goroutines inside a loop (by a go statement, or by being handed to a function
// in `wrappers`) that capture a variable declared outside that loop and assigned inside it: the goroutine reads the
// variable whenever it gets to run, which may be after a later iteration has changed it.
type capturedWrite struct {
	Site  ssa.Instruction // the go statement or wrapper call
	Var   *ssa.Alloc
	Store *ssa.Store
}

func loopCapturedWrites(fn *ssa.Function, isWrapper func(*ssa.Function) bool) (out []capturedWrite, nGo int) {
	loops := naturalLoops(fn)
	if len(loops) == 0 {
		return
	}
	eachInstr(fn, func(b *ssa.BasicBlock, in ssa.Instruction) {
		var mcs []*ssa.MakeClosure
		switch x := in.(type) {
		case *ssa.Go:
			if mc, ok := x.Call.Value.(*ssa.MakeClosure); ok {
				mcs = append(mcs, mc)
			}
		case *ssa.Call:
			if sc := x.Call.StaticCallee(); sc != nil && isWrapper != nil && isWrapper(sc) {
				for _, a := range x.Call.Args {
					if mc, ok := a.(*ssa.MakeClosure); ok {
						mcs = append(mcs, mc)
					}
				}
			}
		}
		if len(mcs) == 0 {
			return
		}
		inLoop := false
		for _, lp := range loops {
			if lp.Blocks[b] {
				inLoop = true
			}
		}
		if !inLoop {
			return
		}
		nGo++
		for _, mc := range mcs {
			for _, bnd := range mc.Bindings {
				al, ok := bnd.(*ssa.Alloc)
				if !ok {
					continue
				}
				for _, lp := range loops {
					if !lp.Blocks[b] || lp.Blocks[al.Block()] {
						continue
					}
					// declared outside this loop, started inside it: any assignment inside the loop is a later iteration's
					for _, st := range storesInto(al) {
						if lp.Blocks[st.Block()] {
							out = append(out, capturedWrite{in, al, st})
						}
					}
				}
			}
		}
	})
	return
}

// sharedAccumulators: local maps made outside a loop, filled inside it and consumed as a whole inside it (ranged over,
// measured, or handed to a function): each iteration then sees what the earlier iterations put in. A set that is only
// asked about single keys inside the loop (a dedup set) is not reported.
type sharedAcc struct {
	Make *ssa.MakeMap
	Use  ssa.Instruction
}

func sharedAccumulators(fn *ssa.Function) []sharedAcc {
	var out []sharedAcc
	loops := naturalLoops(fn)
	if len(loops) == 0 {
		return nil
	}
	eachInstr(fn, func(mb *ssa.BasicBlock, in ssa.Instruction) {
		mm, ok := in.(*ssa.MakeMap)
		if !ok {
			return
		}
		// the values through which the map is reached: itself, or loads of the local cell it is stored in
		isMap := func(v ssa.Value) bool {
			if v == ssa.Value(mm) {
				return true
			}
			if al, ok := loadAddr(v).(*ssa.Alloc); ok {
				sts := storesInto(al)
				return len(sts) == 1 && sts[0].Val == ssa.Value(mm)
			}
			return false
		}
		// stored into a field or returned: not a local accumulator
		escapes := false
		for _, r := range *mm.Referrers() {
			switch x := r.(type) {
			case *ssa.Store:
				if _, isAl := x.Addr.(*ssa.Alloc); !isAl {
					escapes = true
				}
			case *ssa.Return:
				escapes = true
			}
		}
		if escapes {
			return
		}
		for _, lp := range loops {
			if lp.Blocks[mb] {
				continue
			}
			var update, whole ssa.Instruction
			for _, b := range fn.Blocks {
				if !lp.Blocks[b] {
					continue
				}
				for _, in2 := range b.Instrs {
					switch x := in2.(type) {
					case *ssa.MapUpdate:
						if isMap(x.Map) {
							update = in2
						}
					case *ssa.Range:
						if isMap(x.X) {
							whole = in2
						}
					case *ssa.Call:
						for _, a := range x.Call.Args {
							if isMap(a) {
								if bi, ok := x.Call.Value.(*ssa.Builtin); ok && bi.Name() == "delete" {
									continue
								}
								whole = in2
							}
						}
					}
				}
			}
			if update != nil && whole != nil {
				out = append(out, sharedAcc{mm, whole})
				return
			}
		}
	})
	return out
}
