// c10.go: C10 — scaled numbers keep at least three significant digits, correctly rounded (thin: tables only).
package main

import (
	"fmt"
	"go/constant"
	"go/token"
	"go/types"
	"math/big"
	"regexp"
	"sort"
	"strconv"
	"strings"

	"golang.org/x/tools/go/ssa"
)

func init() { register("C10", checkC10) }

const bunitPkg = modPath + "/benchunit"

func checkC10(c *Ctx) {
	c.Rule("C10/R1", "prefix ladders: the SI list with its start exponent and step gives {T:12 G:9 M:6 k:3 \"\":0 m:-3 µ:-6 n:-9} with factor 10^exp; the IEC list gives {Ti:40 Gi:30 Mi:20 Ki:10 \"\":0} with factor 2^exp")
	c.Rule("C10/R2", "threshold ↔ precision: the boundary literal with d digits before the point is 10^d - 5·10^(d-5), it is stored in the threshold that selects precision 3-d through an inclusive comparison, thresholds are tried from coarse to fine, the sub-prefix ladder is 9.9995e-1..e-8 with base precision 3; the common scale is chosen from the smallest non-zero magnitude (absolute values, zeros skipped)")
	c.Rule("C10/R3", "binary thresholds: the hexadecimal mantissas are the correctly rounded doubles of 99.995, 9.9995 and .99995")
	c.Rule("C10/R4", "formatting: Scaler.Format has a single path, strconv.AppendFloat(buf, val/Factor, 'f', Prec, 64) followed by the prefix; the no-op scaler is {-1, 1, \"\"}")
	c.Rule("C10/R6", "tables ready: every package-level table read on the way from Scale, CommonScale or ClassOf is filled by the package initialiser, or every path to the read passes a call that fills it")
	c.Rule("C10/R5", "unit class: ClassOf returns Binary exactly when a numerator token equals B, MB or bytes")

	c.Rule("C10/R10", "the common scale of no values is defined: CommonScale never indexes or re-slices its values at a constant position without a length test")
	c.Rule("C10/R9", "scaling and formatting leave nothing behind: no function of benchunit writes package-level state (lazily built tables behind sync.Once apart) or uses it as scratch space, and none writes through a slice it was handed (no store into, append onto or sort of a parameter slice or a reslice of it)")
	c.Rule("C10/R8", "numerator and denominator in the unit tokenizer (same rule as C04/R3): the Binary classification looks at numerator tokens only; '*' clears and '/' sets the denominator flag, and nothing else touches it")
	c.Rule("C10/R7", "unit class over characters, not bytes (same rule as C04/R8): no unicode predicate in benchunit is applied to a lone byte widened to a rune")
	p := mustLoad(c, loadOpts{}, "./benchunit")
	c10Slots, c10SlotDec = map[string]int64{}, map[string]string{}
	c10Ladders(c, p)
	c10Select(c, p)
	c10Format(c, p)
	c10Class(c, p)
	c10TablesReady(c, p)
	byteRuneRule(c, p, "C10/R7", "benchunit")
	c.Under("C04/R3", "C10/R8", func() { c04R3(c, p) })
	c10Pure(c, p)
	c10EmptySafe(c, p)
}

// c10TablesReady (C10/R6): every package-level table read on the way from Scale/CommonScale is either filled by the package
// initialiser or, when it is filled lazily, every read is dominated by a call that (transitively, through closures handed
// to it) stores it.
func c10TablesReady(c *Ctx, p *Prog) {
	const R = "C10/R6"
	roots := []*ssa.Function{p.Fn("benchunit", "CommonScale"), p.Fn("benchunit", "Scale"), p.Fn("benchunit", "ClassOf")}
	for _, r := range roots {
		if r == nil {
			c.Undecided(R, "anchor", "", "CommonScale, Scale or ClassOf not found")
			return
		}
	}
	var all []*ssa.Function
	for _, fn := range p.Funcs("benchunit") {
		all = append(all, fn)
		all = append(all, allAnon(fn)...)
	}
	// who stores which global
	stores := map[*ssa.Global][]*ssa.Function{}
	for _, fn := range all {
		eachInstr(fn, func(_ *ssa.BasicBlock, in ssa.Instruction) {
			if st, ok := in.(*ssa.Store); ok {
				if g, ok := st.Addr.(*ssa.Global); ok {
					stores[g] = append(stores[g], fn)
				}
			}
		})
	}
	// mayStore(f, g): f, its static callees in the package and the closures it creates or passes on store g
	var mayStore func(f *ssa.Function, g *ssa.Global, seen map[*ssa.Function]bool) bool
	mayStore = func(f *ssa.Function, g *ssa.Global, seen map[*ssa.Function]bool) bool {
		if f == nil || seen[f] || f.Blocks == nil {
			return false
		}
		seen[f] = true
		found := false
		eachInstr(f, func(_ *ssa.BasicBlock, in ssa.Instruction) {
			if found {
				return
			}
			switch x := in.(type) {
			case *ssa.Store:
				if x.Addr == g {
					found = true
				}
			case *ssa.MakeClosure:
				if cf, ok := x.Fn.(*ssa.Function); ok && mayStore(cf, g, seen) {
					found = true
				}
			case ssa.CallInstruction:
				if sc := x.Common().StaticCallee(); sc != nil && sc.Pkg == f.Pkg && mayStore(sc, g, seen) {
					found = true
				}
				for _, a := range x.Common().Args {
					if af, ok := a.(*ssa.Function); ok && mayStore(af, g, seen) {
						found = true
					}
				}
			}
		})
		return found
	}
	// readyAt(fn, b, idx, g): a call that may store g dominates instruction idx of block b
	fills := func(in ssa.Instruction, g *ssa.Global) bool {
		call, isCall := in.(ssa.CallInstruction)
		if !isCall {
			return false
		}
		if _, isGo := in.(*ssa.Go); isGo {
			return false
		}
		if _, isDefer := in.(*ssa.Defer); isDefer {
			return false
		}
		if sc := call.Common().StaticCallee(); sc != nil && mayStore(sc, g, map[*ssa.Function]bool{}) {
			return true
		}
		for _, a := range call.Common().Args {
			switch af := a.(type) {
			case *ssa.Function:
				if mayStore(af, g, map[*ssa.Function]bool{}) {
					return true
				}
			case *ssa.MakeClosure:
				if mayStore(af.Fn.(*ssa.Function), g, map[*ssa.Function]bool{}) {
					return true
				}
			}
		}
		return false
	}
	// readyAt(fn, b, idx, g): no path from the entry of fn reaches instruction idx of block b without passing a call that
	// may store g
	readyAt := func(fn *ssa.Function, b *ssa.BasicBlock, idx int, g *ssa.Global) bool {
		// blocks whose end can be reached from the entry without a filling call
		passes := func(blk *ssa.BasicBlock, upto int) bool {
			for i, in := range blk.Instrs {
				if i >= upto {
					break
				}
				if fills(in, g) {
					return false
				}
			}
			return true
		}
		seen := map[*ssa.BasicBlock]bool{}
		work := []*ssa.BasicBlock{fn.Blocks[0]}
		for len(work) > 0 {
			blk := work[len(work)-1]
			work = work[:len(work)-1]
			if seen[blk] {
				continue
			}
			seen[blk] = true
			if blk == b && passes(blk, idx) {
				return false
			}
			if passes(blk, len(blk.Instrs)) {
				work = append(work, blk.Succs...)
			}
		}
		return true
	}
	reach := staticReach(roots, bunitPkg)
	n := 0
	for _, fn := range reach {
		if fn.Pkg == nil || fn.Pkg.Pkg.Path() != bunitPkg {
			continue
		}
		for _, b := range fn.Blocks {
			for idx, in := range b.Instrs {
				ld, ok := in.(*ssa.UnOp)
				if !ok || ld.Op != token.MUL {
					continue
				}
				g, ok := ld.X.(*ssa.Global)
				if !ok || g.Pkg != fn.Pkg {
					continue
				}
				lazy := false
				for _, sf := range stores[g] {
					if sf.Name() != "init" || sf.Parent() != nil {
						lazy = true
					}
				}
				n++
				key := "table-ready:" + g.Name() + "@" + fnName(fn)
				site := p.pos(ld.Pos())
				if !lazy {
					c.OK(R, key, site, "filled by the package initialiser (or never written)")
					continue
				}
				if mayStore(fn, g, map[*ssa.Function]bool{}) && !readyAt(fn, b, idx, g) {
					// the lazy initialiser itself (check-then-fill)
					selfInit := false
					for _, sf := range stores[g] {
						if sf == fn {
							selfInit = true
						}
					}
					if selfInit {
						c.OK(R, key, site, "read inside the function that fills it")
						continue
					}
				}
				if readyAt(fn, b, idx, g) {
					c.OK(R, key, site, "every path to the read passes a call that fills it")
					continue
				}
				// one level up: every call of fn in the package is itself preceded by a filling call
				callersOK, callers := true, 0
				for _, cf := range all {
					for _, cb := range cf.Blocks {
						for ci, cin := range cb.Instrs {
							if call, isCall := cin.(ssa.CallInstruction); isCall && call.Common().StaticCallee() == fn {
								callers++
								if !readyAt(cf, cb, ci, g) {
									callersOK = false
								}
							}
						}
					}
				}
				if callers > 0 && callersOK && !isExported(fn) {
					c.OK(R, key, site, "every caller fills it before calling")
					continue
				}
				c.Bad(R, key, site, "the table "+g.Name()+" is filled lazily, and this read can be reached without passing a call that fills it: the first value formatted through this path sees an empty table (no prefix threshold or no sub-prefix precision is found), so it is printed with the wrong number of significant digits")
			}
		}
	}
	c.Floor(R, "table reads", n, 3)
}

func isExported(fn *ssa.Function) bool {
	return fn.Object() != nil && fn.Object().Exported() && fn.Parent() == nil
}

func allAnon(fn *ssa.Function) []*ssa.Function {
	var out []*ssa.Function
	for _, a := range fn.AnonFuncs {
		out = append(out, a)
		out = append(out, allAnon(a)...)
	}
	return out
}

// stringListIn: the constant strings stored into array literals of fn, in index order.
func stringListIn(fn *ssa.Function) []string {
	type el struct {
		idx int64
		s   string
	}
	var els []el
	eachInstr(fn, func(_ *ssa.BasicBlock, in ssa.Instruction) {
		st, ok := in.(*ssa.Store)
		if !ok {
			return
		}
		ia, ok := st.Addr.(*ssa.IndexAddr)
		if !ok {
			return
		}
		s, ok := constString(st.Val)
		if !ok {
			return
		}
		k, ok := constInt(ia.Index)
		if !ok {
			return
		}
		els = append(els, el{k, s})
	})
	sort.Slice(els, func(i, j int) bool { return els[i].idx < els[j].idx })
	var out []string
	for _, e := range els {
		out = append(out, e.s)
	}
	return out
}

// c10TextOf: the text handed to the float parser, as a format with one %d and the integer printed into it:
// fmt.Sprintf("9.9995e%d", exp) or "9.9995e" + strconv.Itoa(exp).
func c10TextOf(v ssa.Value) (lit string, operand ssa.Value, ok bool) {
	switch x := v.(type) {
	case *ssa.Call:
		if !objIs(calleeObj(&x.Call), "fmt", "", "Sprintf") || len(x.Call.Args) < 2 {
			return "", nil, false
		}
		lit, _ = constString(x.Call.Args[0])
		if sl, ok := x.Call.Args[1].(*ssa.Slice); ok {
			if al, ok := sl.X.(*ssa.Alloc); ok {
				for _, st := range storesInto(al) {
					if mi, ok := st.Val.(*ssa.MakeInterface); ok {
						operand = mi.X
					}
				}
			}
		}
		return lit, operand, true
	case *ssa.BinOp:
		if x.Op != token.ADD {
			return "", nil, false
		}
		k, isK := constString(x.X)
		cv, isCall := x.Y.(*ssa.Call)
		if !isK || !isCall || !objIs(calleeObj(&cv.Call), "strconv", "", "Itoa") {
			return "", nil, false
		}
		return k + "%d", cv.Call.Args[0], true
	}
	return "", nil, false
}

var expFmt = regexp.MustCompile(`^([0-9.a-fx]+)([ep])%d$`)

func c10Ladders(c *Ctx, p *Prog) {
	type ladder struct {
		name   string
		want   []string
		start  int64
		step   int64
		base   int64
		consts map[string]string // threshold field -> decimal it must denote
	}
	ladders := []ladder{
		{"SI", []string{"T", "G", "M", "k", "", "m", "µ", "n"}, 12, -3, 10, nil},
		{"IEC", []string{"Ti", "Gi", "Mi", "Ki", ""}, 40, -10, 2, nil},
	}
	factorT := p.Named("benchunit", "factor")
	if factorT == nil {
		c.Undecided("C10/R1", "anchor:factor", "", "threshold table type not found")
		return
	}
	// builders: functions returning []factor
	// a builder holds the loop itself, or hands constants (base, first exponent, step), the prefix list and a threshold
	// closure to one shared loop of the package: body is the function with the loop, bind its parameters as called
	type builder struct {
		fn, body *ssa.Function
		bind     map[ssa.Value]ssa.Value
	}
	returnsTable := func(fn *ssa.Function) bool {
		if fn.Signature.Results().Len() != 1 {
			return false
		}
		sl, ok := fn.Signature.Results().At(0).Type().Underlying().(*types.Slice)
		return ok && types.Identical(sl.Elem(), factorT)
	}
	var builders []builder
	for _, fn := range p.Funcs("benchunit") {
		if fn.Signature.Params().Len() != 0 || !returnsTable(fn) {
			continue
		}
		if len(naturalLoops(fn)) > 0 {
			// (a function without a loop that returns the table is an accessor, not a builder)
			builders = append(builders, builder{fn, fn, nil})
			continue
		}
		for _, b := range fn.Blocks {
			ret, ok := b.Instrs[len(b.Instrs)-1].(*ssa.Return)
			if !ok {
				continue
			}
			call, ok := retVal(ret, 0).(*ssa.Call)
			if !ok {
				continue
			}
			h := call.Call.StaticCallee()
			if h == nil || h.Pkg != fn.Pkg || len(h.Params) == 0 || !returnsTable(h) || len(naturalLoops(h)) == 0 {
				continue
			}
			bind := map[ssa.Value]ssa.Value{}
			for i, prm := range h.Params {
				a := call.Call.Args[i]
				if mc, ok := a.(*ssa.MakeClosure); ok {
					a = mc.Fn
				}
				bind[prm] = a
			}
			builders = append(builders, builder{fn, h, bind})
		}
	}
	c.Floor("C10/R1", "threshold-table builders", len(builders), 2)
	for _, bl := range builders {
		fn, body, bind := bl.fn, bl.body, bl.bind
		site := p.pos(fn.Pos())
		list := stringListIn(fn)
		constInt := func(v ssa.Value) (int64, bool) {
			if b, ok := bind[v]; ok {
				v = b
			}
			return constInt(v)
		}
		// start exponent and step: the int phi of the loop
		var start, step int64 = 0, 0
		var base int64
		for _, lp := range naturalLoops(body) {
			for _, in := range lp.Header.Instrs {
				phi, ok := in.(*ssa.Phi)
				if !ok || !isInteger(phi.Type()) || phi.Comment != "exp" {
					continue
				}
				for i, e := range phi.Edges {
					if lp.Blocks[lp.Header.Preds[i]] {
						if bo, ok := e.(*ssa.BinOp); ok {
							if k, ok := constInt(bo.Y); ok {
								if bo.Op == token.SUB {
									step = -k
								} else if bo.Op == token.ADD {
									step = k
								}
							}
						}
					} else if k, ok := constInt(e); ok {
						start = k
					}
				}
			}
		}
		for _, call := range callsIn(body, "math", "", "Pow") {
			a0 := call.Common().Args[0]
			if b, ok := bind[a0]; ok {
				a0 = b
			}
			if k, ok := a0.(*ssa.Const); ok && k.Value != nil {
				f, _ := constant.Float64Val(k.Value)
				base = int64(f)
			}
		}
		var ld *ladder
		for i := range ladders {
			if ladders[i].base == base {
				ld = &ladders[i]
			}
		}
		key := fnName(fn) + ":ladder"
		if ld == nil {
			c.Undecided("C10/R1", key, site, fmt.Sprintf("builder with factor base %d is neither decimal nor binary", base))
			continue
		}
		// the exponent each prefix gets: evaluate the exponent handed to math.Pow for iteration k, with every
		// loop-carried integer at its k-th value (so a running counter and a function of the index are the same thing)
		got := map[string]int64{}
		evalOK := true
		var powExp ssa.Value
		for _, call := range callsIn(body, "math", "", "Pow") {
			powExp = call.Common().Args[1]
		}
		for k, s := range list {
			env := map[ssa.Value]int64{}
			for prm, a := range bind {
				if kk, ok := constInt(a); ok && isInteger(prm.Type()) {
					env[prm] = kk
				}
			}
			for _, lp := range naturalLoops(body) {
				for _, in := range lp.Header.Instrs {
					phi, ok := in.(*ssa.Phi)
					if !ok || !isInteger(phi.Type()) {
						continue
					}
					var init, stp int64
					okR := false
					for i, e := range phi.Edges {
						if lp.Blocks[lp.Header.Preds[i]] {
							if bo, ok := e.(*ssa.BinOp); ok && bo.X == phi {
								if kk, ok := constInt(bo.Y); ok {
									okR = true
									if bo.Op == token.SUB {
										stp = -kk
									} else if bo.Op == token.ADD {
										stp = kk
									} else {
										okR = false
									}
								}
							}
						} else if kk, ok := constInt(e); ok {
							init = kk
						}
					}
					if okR {
						env[phi] = init + int64(k)*stp
					}
				}
			}
			if powExp == nil {
				evalOK = false
				break
			}
			v, ok := evalInt(stripFloatConv(powExp), env)
			if !ok {
				evalOK = false
				break
			}
			got[s] = v
		}
		_ = start
		_ = step
		ok := evalOK && strings.Join(list, ",") == strings.Join(ld.want, ",")
		for i, s := range ld.want {
			if ok && got[s] != ld.start+int64(i)*ld.step {
				ok = false
			}
		}
		c.Check(ok, "C10/R1", key, site, fmt.Sprintf("%s prefixes %q get the exponents %v", ld.name, list, got),
			fmt.Sprintf("the %s ladder is %q with exponents %v (evaluable: %v); documented: %q from %d step %d, the empty prefix at exponent 0", ld.name, list, got, evalOK, ld.want, ld.start, ld.step))
		// thresholds: format literals and the fields they reach
		c10Thresholds(c, p, fn, ld.name, body, bind)
	}
	// sub-prefix ladder
	for _, fn := range p.Funcs("benchunit") {
		if fn.Signature.Results().Len() != 2 || len(callsIn(fn, "strconv", "", "ParseFloat")) == 0 {
			continue
		}
		site := p.pos(fn.Pos())
		var lit string
		for _, call := range callsIn(fn, "strconv", "", "ParseFloat") {
			if l, _, ok := c10TextOf(call.Common().Args[0]); ok {
				lit = l
			}
		}
		// loop bounds: exp from -1 down while exp > -9
		var start, limit int64
		var cmpOp token.Token
		for _, lp := range naturalLoops(fn) {
			for _, in := range lp.Header.Instrs {
				if phi, ok := in.(*ssa.Phi); ok && isInteger(phi.Type()) {
					for i, e := range phi.Edges {
						if !lp.Blocks[lp.Header.Preds[i]] {
							start, _ = constInt(e)
						}
					}
				}
				if bo, ok := in.(*ssa.BinOp); ok {
					if k, ok := constInt(bo.Y); ok {
						limit, cmpOp = k, bo.Op
					}
				}
			}
		}
		var base int64 = -1
		for _, b := range fn.Blocks {
			if ret, ok := b.Instrs[len(b.Instrs)-1].(*ssa.Return); ok {
				base, _ = constInt(retVal(ret, 1))
			}
		}
		last := limit + 1
		if cmpOp == token.GEQ {
			last = limit
		}
		c.Check(lit == "9.9995e%d" && start == -1 && last == -8 && base == 3, "C10/R2", fnName(fn)+":sub-prefix-ladder", site, "thresholds 9.9995e-1 .. 9.9995e-8, first one selecting 3 decimals",
			fmt.Sprintf("the sub-prefix ladder is %q for exponents %d..%d with base precision %d; documented 9.9995e%%d for -1..-8, base 3", lit, start, last, base))
	}
}

// c10Slots: threshold slot (field name, or "field[k]") -> the number of decimals its boundary selects; c10SlotDec: -> the
// boundary's decimal text. Filled by c10Thresholds from the table constructors, read by c10Select.
var (
	c10Slots   map[string]int64
	c10SlotDec map[string]string
)

func c10Thresholds(c *Ctx, p *Prog, fn *ssa.Function, kind string, body *ssa.Function, bind map[ssa.Value]ssa.Value) {
	// Sprintf literal -> ParseFloat -> field of factor
	site := p.pos(fn.Pos())
	type thr struct {
		lit    string
		field  string
		expArg ssa.Value // the operand printed into the literal's %d
	}
	var ths []thr
	// the slot a parsed threshold is stored in: a field of the factor, or element k of an array field ("thresh[k]")
	var fieldOfResult func(v ssa.Value) string
	fieldOfResult = func(v ssa.Value) string {
		field := ""
		// a result of the threshold closure handed to the shared loop: the slot its call there stores that result in
		if in, ok := v.(ssa.Instruction); ok && body != fn {
			for prm, a := range bind {
				if a != ssa.Value(in.Parent()) {
					continue
				}
				idx := -1
				for _, b := range in.Parent().Blocks {
					if ret, ok := b.Instrs[len(b.Instrs)-1].(*ssa.Return); ok {
						for i, r := range ret.Results {
							if r == v {
								if idx >= 0 && idx != i {
									return ""
								}
								idx = i
							}
						}
					}
				}
				if idx < 0 {
					continue
				}
				for _, r := range *prm.Referrers() {
					call, ok := r.(*ssa.Call)
					if !ok || call.Call.Value != prm {
						continue
					}
					for _, r2 := range *call.Referrers() {
						if ex, ok := r2.(*ssa.Extract); ok && ex.Index == idx {
							field = fieldOfResult(ex)
						}
					}
				}
			}
			if field != "" {
				return field
			}
		}
		for _, r := range *v.Referrers() {
			st, ok := r.(*ssa.Store)
			if !ok {
				continue
			}
			if f, _ := fieldOfAddr(st.Addr); f != nil {
				field = f.Name()
			}
			ia, ok := st.Addr.(*ssa.IndexAddr)
			if !ok {
				continue
			}
			k, isK := constInt(ia.Index)
			if !isK {
				continue
			}
			if f, _ := fieldOfAddr(ia.X); f != nil {
				field = fmt.Sprintf("%s[%d]", f.Name(), k)
			}
			if al, ok := ia.X.(*ssa.Alloc); ok {
				// a composite literal built in a temporary and copied into the field
				for _, r2 := range *al.Referrers() {
					if ld, ok := r2.(*ssa.UnOp); ok && ld.Op == token.MUL {
						for _, r3 := range *ld.Referrers() {
							if st2, ok := r3.(*ssa.Store); ok && st2.Val == ssa.Value(ld) {
								if f, _ := fieldOfAddr(st2.Addr); f != nil {
									field = fmt.Sprintf("%s[%d]", f.Name(), k)
								}
							}
						}
					}
				}
			}
		}
		return field
	}
	sprintfOperand := func(sp *ssa.Call) ssa.Value {
		if len(sp.Call.Args) < 2 {
			return nil
		}
		if sl, ok := sp.Call.Args[1].(*ssa.Slice); ok {
			if al, ok := sl.X.(*ssa.Alloc); ok {
				for _, st := range storesInto(al) {
					if mi, ok := st.Val.(*ssa.MakeInterface); ok {
						return mi.X
					}
				}
			}
		}
		return nil
	}
	// a helper of the package that parses the text printed by a format with one integer operand
	isThresholdParser := func(f *ssa.Function) bool {
		if f == nil || f.Blocks == nil || f.Pkg != fn.Pkg || len(f.Params) != 2 || !isString(f.Params[0].Type()) || !isInteger(f.Params[1].Type()) {
			return false
		}
		ok := false
		for _, call := range callsIn(f, "strconv", "", "ParseFloat") {
			if sp, isCall := call.Common().Args[0].(*ssa.Call); isCall && objIs(calleeObj(&sp.Call), "fmt", "", "Sprintf") && sp.Call.Args[0] == ssa.Value(f.Params[0]) && sprintfOperand(sp) == ssa.Value(f.Params[1]) {
				ok = true
			}
		}
		return ok
	}
	scan := []*ssa.Function{fn}
	if body != fn {
		scan = append(scan, body)
		for _, prm := range body.Params {
			if f, ok := bind[prm].(*ssa.Function); ok {
				scan = append(scan, f)
			}
		}
	}
	for _, sf := range scan {
		eachInstr(sf, func(_ *ssa.BasicBlock, in ssa.Instruction) {
			call, ok := in.(*ssa.Call)
			if !ok {
				return
			}
			switch {
			case objIs(calleeObj(&call.Call), "strconv", "", "ParseFloat"):
				lit, operand, ok := c10TextOf(call.Call.Args[0])
				if !ok {
					return
				}
				field := ""
				for _, r := range *call.Referrers() {
					if ex, ok := r.(*ssa.Extract); ok && ex.Index == 0 {
						field = fieldOfResult(ex)
					}
				}
				ths = append(ths, thr{lit, field, operand})
			case isThresholdParser(call.Call.StaticCallee()):
				lit, _ := constString(call.Call.Args[0])
				ths = append(ths, thr{lit, fieldOfResult(call), call.Call.Args[1]})
			}
		})
	}
	// the three rounding boundaries and the number of decimals each one selects
	bounds := []struct {
		dec  string
		prec int64
	}{{"99.995", 1}, {"9.9995", 2}, {".99995", 3}}
	norm := func(x float64) float64 {
		for x >= 2 {
			x /= 2
		}
		for x < 1 && x > 0 {
			x *= 2
		}
		return x
	}
	for _, t := range ths {
		m := expFmt.FindStringSubmatch(t.lit)
		key := fmt.Sprintf("%s:threshold %s", fnName(fn), t.field)
		if m == nil || t.field == "" {
			c.Undecided("C10/R2", key, site, fmt.Sprintf("threshold literal %q / field %q not recognised", t.lit, t.field))
			continue
		}
		// which boundary the literal's mantissa denotes: exactly for decimal, as the nearest double for hex
		// (the hex mantissa carries its own scale: 99.995 = 0x1.8ff..p6, so compare after normalising both to [1,2))
		dec, prec := "", int64(0)
		for _, bd := range bounds {
			if m[2] == "e" {
				a, _ := new(big.Rat).SetString(m[1])
				b, _ := new(big.Rat).SetString(bd.dec)
				if a != nil && a.Cmp(b) == 0 {
					dec, prec = bd.dec, bd.prec
				}
			} else {
				hv, err1 := strconv.ParseFloat(m[1]+"p0", 64)
				dv, _ := strconv.ParseFloat(bd.dec, 64)
				if err1 == nil && norm(hv) == norm(dv) {
					dec, prec = bd.dec, bd.prec
				}
			}
		}
		rule := "C10/R2"
		if m[2] != "e" {
			rule = "C10/R3"
		}
		if dec == "" {
			if m[2] == "e" {
				c.Bad(rule, key, site, fmt.Sprintf("the threshold's mantissa is %s; the boundaries at which the printed mantissa gains a digit are 99.995, 9.9995 and .99995", m[1]))
			} else {
				c.Bad(rule, key, site, fmt.Sprintf("the binary threshold's mantissa %s is not the double nearest to 99.995, 9.9995 or .99995", m[1]))
			}
			continue
		}
		if m[2] == "e" {
			c.OK(rule, key, site, "mantissa "+m[1]+" is the rounding boundary "+dec)
		} else {
			c.OK(rule, key, site, "hex mantissa "+m[1]+" is the correctly rounded double of "+dec)
		}
		// every constructor must put the same boundary into a slot: CommonScale reads both tables the same way
		if prev, dup := c10Slots[t.field]; dup && prev != prec {
			c.Bad("C10/R2", key+":agrees", site, fmt.Sprintf("slot %s holds the boundary selecting %d decimals here and the one selecting %d decimals in the other table", t.field, prec, prev))
		}
		c10Slots[t.field] = prec
		c10SlotDec[t.field] = dec
		if m[2] != "e" {
			dv, _ := strconv.ParseFloat(dec, 64)
			// and its binary exponent offset: value = mantissa * 2^(off+exp) must equal dec * 2^exp: off = floor(log2(dec))
			off := 0
			for x := dv; x >= 2; x /= 2 {
				off++
			}
			for x := dv; x < 1; x *= 2 {
				off--
			}
			// the offset added to exp in the printed operand
			got := int64(1 << 40)
			if bo, ok := t.expArg.(*ssa.BinOp); ok && bo.Op == token.ADD {
				if k, ok := constInt(bo.X); ok {
					got = k
				}
				if k, ok := constInt(bo.Y); ok {
					got = k
				}
			}
			c.Check(got == int64(off), "C10/R3", key+":exponent-offset", site, fmt.Sprintf("scaled by 2^(%d+exp)", off), fmt.Sprintf("the %s threshold is scaled by 2^(%d+exp); %s needs 2^(%d+exp)", t.field, got, dec, off))
		}
	}
	// each boundary is stored exactly once per prefix
	if len(ths) == 3 {
		got := map[int64]int{}
		for _, t := range ths {
			if pr, ok := c10Slots[t.field]; ok {
				got[pr]++
			}
		}
		for _, bd := range bounds {
			if got[bd.prec] > 1 {
				c.Bad("C10/R2", fmt.Sprintf("%s:boundary %s", fnName(fn), bd.dec), site, fmt.Sprintf("the boundary %s is stored in %d thresholds: one precision can never be selected", bd.dec, got[bd.prec]))
			}
		}
	}
	if kind != "" && len(ths) != 3 {
		c.Undecided("C10/R2", fnName(fn)+":thresholds", site, fmt.Sprintf("expected three thresholds per prefix, found %d", len(ths)))
	}
}

func c10Select(c *Ctx, p *Prog) {
	const R = "C10/R2"
	fn := p.Fn("benchunit", "CommonScale")
	if fn == nil {
		c.Undecided(R, "anchor:CommonScale", "", "not found")
		return
	}
	site := p.pos(fn.Pos())
	precF := p.Field("benchunit", "Scaler", "Prec")
	// (a) threshold -> precision, inclusive
	want := c10Slots
	if len(want) != 3 {
		c.Undecided(R, "CommonScale:slots", site, fmt.Sprintf("expected three threshold slots from the table constructors, found %d", len(want)))
		return
	}
	seen := map[string]bool{}
	order := []string{}
	// the threshold comparisons may sit in CommonScale or in a helper of the package it calls
	thrFns := []*ssa.Function{fn}
	eachInstr(fn, func(_ *ssa.BasicBlock, in ssa.Instruction) {
		if call, ok := in.(*ssa.Call); ok {
			if sc := call.Call.StaticCallee(); sc != nil && sc.Blocks != nil && sc.Pkg == fn.Pkg {
				thrFns = append(thrFns, sc)
			}
		}
	})
	fieldOf := func(v ssa.Value) *types.Var {
		if f, _ := loadOfField(v); f != nil {
			return f
		}
		if fv, ok := v.(*ssa.Field); ok {
			f, _ := fieldOfVal(fv)
			return f
		}
		return nil
	}
	// slotsOf: the threshold slots an operand may denote, in the order they are visited, each with the value of the index
	// variable at that visit: a named field is one slot; an element of an array field is slot k for a constant index, or
	// every slot first..last in turn when the index is the counter of an ascending loop
	type visit struct {
		slot string
		idx  ssa.Value // the counter (nil for a fixed slot)
		k    int64
	}
	slotsOf := func(v ssa.Value) []visit {
		if f := fieldOf(v); f != nil {
			if _, ok := want[f.Name()]; ok {
				return []visit{{f.Name(), nil, 0}}
			}
			return nil
		}
		var arr, idx ssa.Value
		switch x := stripConv(v).(type) {
		case *ssa.Index:
			arr, idx = x.X, x.Index
		case *ssa.UnOp:
			if ia, ok := x.X.(*ssa.IndexAddr); ok && x.Op == token.MUL {
				arr, idx = ia.X, ia.Index
			}
		}
		if arr == nil {
			return nil
		}
		f := fieldOf(arr)
		if f == nil {
			f, _ = fieldOfAddr(arr)
		}
		if f == nil {
			return nil
		}
		if _, ok := want[f.Name()+"[0]"]; !ok {
			return nil
		}
		if k, ok := constInt(idx); ok {
			return []visit{{fmt.Sprintf("%s[%d]", f.Name(), k), nil, k}}
		}
		first, last, ok := countedLoop(idx)
		if !ok {
			return []visit{{f.Name() + "[?]", idx, -1}}
		}
		var out []visit
		for k := first; k <= last && k < first+16; k++ {
			out = append(out, visit{fmt.Sprintf("%s[%d]", f.Name(), k), idx, k})
		}
		return out
	}
	// intAt: the value of an integer expression when the counter idx is k
	var intAt func(v ssa.Value, idx ssa.Value, k int64) (int64, bool)
	intAt = func(v ssa.Value, idx ssa.Value, k int64) (int64, bool) {
		if idx != nil && v == idx {
			return k, true
		}
		if n, ok := constInt(v); ok {
			return n, true
		}
		if bo, ok := v.(*ssa.BinOp); ok && (bo.Op == token.ADD || bo.Op == token.SUB) {
			x, ok1 := intAt(bo.X, idx, k)
			y, ok2 := intAt(bo.Y, idx, k)
			if ok1 && ok2 {
				if bo.Op == token.ADD {
					return x + y, true
				}
				return x - y, true
			}
		}
		// the counter of a range loop is phi+1; a use of the phi itself is one behind
		if idx != nil {
			if inc, ok := idx.(*ssa.BinOp); ok && v == inc.X {
				if step, ok := constInt(inc.Y); ok {
					return k - step, true
				}
			}
		}
		return 0, false
	}
	for _, tf := range thrFns {
		eachInstr(tf, func(_ *ssa.BasicBlock, in ssa.Instruction) {
			bo, ok := in.(*ssa.BinOp)
			if !ok {
				return
			}
			if bo.Op != token.GEQ && bo.Op != token.GTR && bo.Op != token.LEQ && bo.Op != token.LSS {
				return
			}
			var visits []visit
			inclusive := false
			if vs := slotsOf(bo.Y); vs != nil {
				visits = vs
				inclusive = bo.Op == token.GEQ // min >= t
			} else if vs := slotsOf(bo.X); vs != nil {
				visits = vs
				inclusive = bo.Op == token.LEQ // t <= min
			} else {
				return
			}
			for _, vis := range visits {
				if vis.k < 0 {
					c.Undecided(R, "CommonScale:"+vis.slot, p.pos(bo.Pos()), "a threshold is selected by an index that is not the counter of an ascending loop over the thresholds")
					continue
				}
				wantPrec, known := want[vis.slot]
				if !known {
					c.Bad(R, "CommonScale:"+vis.slot, p.pos(bo.Pos()), "the comparison reads threshold "+vis.slot+", which no table constructor fills")
					continue
				}
				seen[vis.slot] = true
				order = append(order, c10SlotDec[vis.slot])
				// the precision returned on the true edge
				var prec int64 = -99
				for _, r := range *bo.Referrers() {
					if ifi, ok := r.(*ssa.If); ok {
						tb := ifi.Block().Succs[0]
						for _, in2 := range tb.Instrs {
							if st, ok := in2.(*ssa.Store); ok {
								if pf, _ := fieldOfAddr(st.Addr); pf == precF {
									if k, ok := intAt(st.Val, vis.idx, vis.k); ok {
										prec = k
									}
								}
							}
							// the Scaler is built by a helper from the precision it is handed (factor.scaler(1))
							if ret, ok := in2.(*ssa.Return); ok && len(ret.Results) >= 1 {
								if mk, ok := retVal(ret, 0).(*ssa.Call); ok {
									if h := mk.Call.StaticCallee(); h != nil && h.Pkg == fn.Pkg && h.Blocks != nil {
										for _, hst := range storesToField(h, precF) {
											for pi, prm := range h.Params {
												if hst.Val == ssa.Value(prm) && pi < len(mk.Call.Args) {
													if k, ok := intAt(mk.Call.Args[pi], vis.idx, vis.k); ok {
														prec = k
													}
												}
											}
										}
									}
								}
							}
							// a helper returns the precision instead of storing it
							if ret, ok := in2.(*ssa.Return); ok && tf != fn && len(ret.Results) >= 1 {
								if k, ok := intAt(retVal(ret, 0), vis.idx, vis.k); ok {
									prec = k
								}
							}
						}
					}
				}
				key := "CommonScale:" + vis.slot
				c.Check(inclusive && prec == wantPrec, R, key, p.pos(bo.Pos()), fmt.Sprintf("min >= %s (the boundary %s) selects %d decimals", vis.slot, c10SlotDec[vis.slot], prec),
					fmt.Sprintf("threshold %s, which holds the boundary %s, selects %d decimals through a %s comparison; documented: inclusive comparison selecting %d (the threshold is the least value that rounds up, so it belongs to the coarser precision; otherwise 999.95 prints as 1000.0 or 0.9999k)", vis.slot, c10SlotDec[vis.slot], prec, bo.Op, wantPrec))
			}
		})
	}
	for _, k := range sortedKeys(want) {
		if !seen[k] {
			c.Bad(R, "CommonScale:"+k, site, "threshold "+k+" is never consulted")
		}
	}
	c.Check(strings.Join(order, ",") == "99.995,9.9995,.99995", R, "CommonScale:threshold-order", site, "thresholds are tried from coarse to fine", fmt.Sprintf("thresholds are tried in the order %v, must be 99.995, 9.9995, .99995", order))
	// (b) minimum over absolute non-zero values: the loop (in CommonScale or in a helper of the package it calls)
	// that takes math.Abs of the values
	var lp *loopInfo
	cands := []*ssa.Function{fn}
	eachInstr(fn, func(_ *ssa.BasicBlock, in ssa.Instruction) {
		if call, ok := in.(*ssa.Call); ok {
			if sc := call.Call.StaticCallee(); sc != nil && sc.Blocks != nil && sc.Pkg == fn.Pkg {
				cands = append(cands, sc)
			}
		}
	})
	for _, g := range cands {
		for _, l := range naturalLoops(g) {
			for b := range l.Blocks {
				for _, in := range b.Instrs {
					if _, ok := callIs(in, "math", "", "Abs"); ok && lp == nil {
						lp = l
					}
				}
			}
		}
	}
	if lp == nil {
		c.Undecided(R, "CommonScale:min-loop", site, "no loop selecting the smallest magnitude")
		return
	}
	var minPhi *ssa.Phi
	for _, in := range lp.Header.Instrs {
		if phi, ok := in.(*ssa.Phi); ok && isFloat(phi.Type()) {
			minPhi = phi
		}
	}
	start := loopBodyStart(lp)
	outs, why := e6Enumerate(func() *e6Interp { return &e6Interp{PureCall: func(f *types.Func) bool { return true }} }, start, lp.Header, iterStop(lp, start), 64)
	if why != "" || minPhi == nil {
		c.Undecided(R, "CommonScale:min-table", site, "cannot evaluate the minimum selection: "+why)
		return
	}
	n := 0
	for _, o := range outs {
		var nz, first, less *bool
		var cand *Sym
		unknown := ""
		for _, k := range o.AtomKeys() {
			v := o.Assign[k]
			_ = v
			s := o.AtomSyms[k]
			vv := v
			switch {
			case s.Op == "binop" && s.Tok == token.EQL && s.Args[1].isConst() && s.Args[0].Op == "opaque":
				first = &vv // min == 0
			case s.Op == "binop" && s.Tok == token.EQL && s.Args[1].isConst():
				t := !v
				nz = &t
				cand = s.Args[0]
			case s.Op == "binop" && s.Tok == token.LSS:
				less = &vv
				if cand == nil {
					cand = s.Args[0]
				}
			default:
				unknown = k
			}
		}
		if unknown != "" {
			c.Undecided(R, "CommonScale:min-atoms", site, "condition outside the table: "+unknown)
			return
		}
		if nz == nil {
			c.Bad(R, "CommonScale:skips-zeros", site, "zero values are not skipped when looking for the smallest magnitude: a zero among the values forces the finest scale")
			return
		}
		n++
		var next *Sym
		for j, pr := range lp.Header.Preds {
			if pr == o.ExitFrom {
				next = o.Val(minPhi.Edges[j])
			}
		}
		cur := o.Val(minPhi)
		take := *nz && ((first != nil && *first) || (less != nil && *less))
		key := fmt.Sprintf("CommonScale:min[nonzero=%v first=%s smaller=%s]", *nz, boolPtrStr(first), boolPtrStr(less))
		var errs []string
		isAbs := func(s *Sym) bool { return s != nil && s.Op == "call" && strings.HasPrefix(s.Name, "math.Abs") }
		if cand != nil && !isAbs(cand) {
			errs = append(errs, "values are compared by their signed value, not their magnitude: after a negative value no smaller magnitude can win")
		}
		if take {
			if next == nil || !isAbs(next) {
				errs = append(errs, "the new minimum is not the visited value's magnitude")
			}
		} else if next == nil || next.String() != cur.String() {
			errs = append(errs, "the minimum changes although the visited value is zero or not smaller")
		}
		if len(errs) > 0 {
			c.Bad(R, key, site, strings.Join(errs, "; "))
		} else {
			c.OK(R, key, site, "conforms")
		}
	}
	c.Floor(R, "minimum-selection cases", n, 3)
	// "there was no non-zero value" is decided by a value no magnitude can have: wherever the running minimum is
	// compared with a constant for equality, the constant is 0 (a sentinel such as MaxFloat64 is itself a magnitude a
	// measurement can have, and a set whose only non-zero value equals it is then taken for all-zero)
	if minPhi != nil {
		ns := 0
		for _, g := range cands {
			eachInstr(g, func(_ *ssa.BasicBlock, in ssa.Instruction) {
				bo, ok := in.(*ssa.BinOp)
				if !ok || (bo.Op != token.EQL && bo.Op != token.NEQ) || bo.X != ssa.Value(minPhi) {
					return
				}
				k, ok := bo.Y.(*ssa.Const)
				if !ok || k.Value == nil {
					return
				}
				ns++
				c.Check(constant.Sign(k.Value) == 0, R, fmt.Sprintf("CommonScale:unset-minimum#%d", ns), p.pos(bo.Pos()), "the unset minimum is recognised by the value 0",
					"the running minimum is compared with the non-zero constant "+k.Value.String()+" to decide whether a non-zero value was seen: that constant is a magnitude a measurement can have, so a row whose only non-zero value equals it is scaled as if it were all zeros")
			})
		}
		// also the start value of the running minimum
		for i, e := range minPhi.Edges {
			if lp.Blocks[lp.Header.Preds[i]] {
				continue
			}
			if k, ok := e.(*ssa.Const); ok && k.Value != nil {
				c.Check(constant.Sign(k.Value) == 0, R, "CommonScale:minimum-start", site, "the running minimum starts unset (0)", "the running minimum starts at "+k.Value.String()+", a value a measurement can have, instead of the unset value 0")
			}
		}
	}
}

func c10Format(c *Ctx, p *Prog) {
	const R = "C10/R4"
	fn := p.Method("benchunit", "Scaler", "Format")
	if fn == nil {
		c.Undecided(R, "anchor:Scaler.Format", "", "not found")
		return
	}
	site := p.pos(fn.Pos())
	factorF := p.Field("benchunit", "Scaler", "Factor")
	precF := p.Field("benchunit", "Scaler", "Prec")
	// accept strconv.AppendFloat(buf, ...) or strconv.FormatFloat(...): the (value, format, precision, bit size)
	// arguments are the last four either way
	nIf := 0
	eachInstr(fn, func(_ *ssa.BasicBlock, in ssa.Instruction) {
		if _, ok := in.(*ssa.If); ok {
			nIf++
		}
	})
	calls := append(callsIn(fn, "strconv", "", "AppendFloat"), callsIn(fn, "strconv", "", "FormatFloat")...)
	ok := nIf == 0 && len(calls) == 1
	detail := fmt.Sprintf("%d branches, %d float formatting calls", nIf, len(calls))
	if ok {
		cc := calls[0].Common()
		a := cc.Args[len(cc.Args)-4:]
		q, isQ := a[0].(*ssa.BinOp)
		f1, _ := func() (*types.Var, ssa.Value) {
			if isQ {
				return loadOfField(q.Y)
			}
			return nil, nil
		}()
		fmtK, _ := constInt(a[1])
		pf, _ := loadOfField(a[2])
		bits, _ := constInt(a[3])
		ok = isQ && q.Op == token.QUO && q.X == fn.Params[1] && f1 == factorF && fmtK == 'f' && pf == precF && bits == 64
		detail = fmt.Sprintf("format(val/Factor: %v, 'f': %v, Prec: %v, 64: %v)", isQ && f1 == factorF, fmtK == 'f', pf == precF, bits == 64)
	}
	c.Check(ok, R, "Scaler.Format", site, "one path: AppendFloat(buf, val/Factor, 'f', Prec, 64) + prefix", "Scaler.Format is not the single call AppendFloat(buf, val/Factor, 'f', Prec, 64): "+detail+" (a special-cased path, e.g. through integers, prints some values differently from the shortest round-trip decimal)")
	// NoOpScaler
	initFn := p.SSAPkg("benchunit").Func("init")
	var g *ssa.Global
	if m, ok := p.SSAPkg("benchunit").Members["NoOpScaler"].(*ssa.Global); ok {
		g = m
	}
	vals := map[string]string{}
	if g != nil && initFn != nil {
		eachInstr(initFn, func(_ *ssa.BasicBlock, in ssa.Instruction) {
			if st, ok := in.(*ssa.Store); ok {
				if f, base := fieldOfAddr(st.Addr); f != nil && base == g {
					if k, ok := st.Val.(*ssa.Const); ok && k.Value != nil {
						vals[f.Name()] = k.Value.ExactString()
					}
				}
			}
		})
	}
	c.Check(vals["Prec"] == "-1" && vals["Factor"] == "1" && vals["Prefix"] == `""`, R, "NoOpScaler", site, "the no-op scaler is {-1, 1, \"\"}", fmt.Sprintf("the no-op scaler is %v; documented {Prec:-1 (shortest round-trip), Factor:1, Prefix:\"\"}", vals))
}

func c10Class(c *Ctx, p *Prog) {
	const R = "C10/R5"
	fn := p.Fn("benchunit", "ClassOf")
	denomF := p.Field("benchunit", "parser", "denom")
	tokF := p.Field("benchunit", "parser", "tok")
	if fn == nil || denomF == nil || tokF == nil {
		c.Undecided(R, "anchor:ClassOf", "", "not found")
		return
	}
	site := p.pos(fn.Pos())
	loops := naturalLoops(fn)
	if len(loops) != 1 {
		c.Undecided(R, "ClassOf:loop", site, "expected one loop over the unit's tokens")
		return
	}
	lp := loops[0]
	start := loopBodyStart(lp)
	inlineLocal := func(f *ssa.Function) bool {
		return f.Pkg != nil && f.Pkg.Pkg.Path() == bunitPkg && f.Signature.Recv() == nil && len(naturalLoops(f)) == 0
	}
	outs, why := e6Enumerate(func() *e6Interp {
		return &e6Interp{Inline: inlineLocal, PureCall: func(f *types.Func) bool { return true }}
	}, start, lp.Header, iterStop(lp, start), 256)
	if why != "" {
		c.Undecided(R, "ClassOf:table", site, why)
		return
	}
	binaryK, _ := p.Obj("benchunit", "Binary").(*types.Const)
	want := map[string]bool{"B": true, "MB": true, "bytes": true}
	n := 0
	seenBin := map[string]bool{}
	for _, o := range outs {
		matched := map[string]bool{}
		var denom *bool
		for _, k := range o.AtomKeys() {
			v := o.Assign[k]
			_ = v
			s := o.AtomSyms[k]
			vv := v
			switch {
			case s.IsFieldLoad(denomF):
				denom = &vv
			case s.Op == "binop" && s.Tok == token.EQL && s.Args[0].IsFieldLoad(tokF) && s.Args[1].isConst():
				lit, _ := constString2(s.Args[1])
				if !want[lit] {
					c.Bad(R, "ClassOf:token "+lit, site, "the token "+strconv.Quote(lit)+" is treated as a byte unit; documented are exactly B, MB and bytes")
					return
				}
				if v {
					matched[lit] = true
				}
			case s.Op == "extract" && s.Idx == 1 && len(s.Args) == 1 && s.Args[0].Op == "lookup" && len(s.Args[0].Args) == 2 && s.Args[0].Args[1].IsFieldLoad(tokF):
				// membership in a package-level set of token spellings: its keys are read from the package initialiser
				keys := map[string]bool{}
				if initFn := fn.Pkg.Func("init"); initFn != nil {
					eachInstr(initFn, func(_ *ssa.BasicBlock, in ssa.Instruction) {
						mu, ok := in.(*ssa.MapUpdate)
						if !ok {
							return
						}
						if ks, ok := constString(mu.Key); ok && strings.Contains(s.Args[0].Args[0].String(), mapGlobalName(mu.Map)) && mapGlobalName(mu.Map) != "" {
							keys[ks] = true
						}
					})
				}
				if len(keys) == 0 {
					c.Undecided(R, "ClassOf:token-set", site, "cannot read the set of byte tokens "+truncate(k, 100))
					return
				}
				for lit := range keys {
					if !want[lit] {
						c.Bad(R, "ClassOf:token "+lit, site, "the token "+strconv.Quote(lit)+" is treated as a byte unit; documented are exactly B, MB and bytes")
						return
					}
					if v {
						matched[lit] = true
					}
				}
			default:
				c.Bad(R, "ClassOf:predicate", site, "the class is decided by "+k+", not by exact equality of a numerator token with B, MB or bytes: units such as dB or RGB/frame become binary")
				return
			}
		}
		n++
		isBin := false
		if o.Term == "return" && len(o.Results) == 1 && o.Results[0].isConst() && binaryK != nil && o.Results[0].Const != nil {
			isBin = constant.Compare(o.Results[0].Const, token.EQL, binaryK.Val())
		}
		shouldBin := len(matched) > 0 && denom != nil && !*denom
		if len(matched) > 0 && denom == nil {
			shouldBin = false
			if isBin {
				c.Bad(R, "ClassOf:ignores-position", site, "a byte token makes the unit binary without regard to numerator/denominator position")
				return
			}
		}
		var ms []string
		for k := range matched {
			ms = append(ms, k)
		}
		sort.Strings(ms)
		key := fmt.Sprintf("ClassOf[token in %v, denominator=%s]", ms, boolPtrStr(denom))
		if isBin && shouldBin {
			for k := range matched {
				seenBin[k] = true
			}
		}
		c.Check(isBin == shouldBin, R, key, site, fmt.Sprintf("binary=%v", isBin), fmt.Sprintf("returns binary=%v; a unit is binary exactly when a byte token appears in the numerator (expected %v)", isBin, shouldBin))
	}
	for _, tk := range []string{"B", "MB", "bytes"} {
		c.Check(seenBin[tk], R, "ClassOf:recognises "+tk, site, "a numerator token "+tk+" makes the unit binary", "no path makes a unit with the numerator token "+strconv.Quote(tk)+" binary: its values are scaled with SI prefixes (1.049M"+tk+" for 2^20) although bytes appear in the numerator")
	}
	c.Floor(R, "ClassOf token cases", n, 3)
}

// stripFloatConv peels int->float conversions off an exponent operand.
func stripFloatConv(v ssa.Value) ssa.Value {
	for {
		cv, ok := v.(*ssa.Convert)
		if !ok {
			return v
		}
		v = cv.X
	}
}

// mapGlobalName: the name of the package-level map variable a map value was loaded from ("" if it is not one).
func mapGlobalName(v ssa.Value) string {
	if ld, ok := v.(*ssa.UnOp); ok {
		if g, ok := ld.X.(*ssa.Global); ok {
			return g.Name()
		}
	}
	if mm, ok := v.(*ssa.MakeMap); ok {
		// the map literal being built in init: stored into the global afterwards
		for _, r := range *mm.Referrers() {
			if st, ok := r.(*ssa.Store); ok {
				if g, ok := st.Addr.(*ssa.Global); ok {
					return g.Name()
				}
			}
		}
	}
	return ""
}

// c10Pure (C10/R9): see the rule text. The first half is C15/R11's rule over benchunit's own functions; the second half
// is about the arguments: CommonScale(vals) is handed the very row the caller goes on to format.
func c10Pure(c *Ctx, p *Prog) {
	const R = "C10/R9"
	reach := map[*ssa.Function]bool{}
	for _, fn := range p.Funcs("benchunit") {
		reach[fn] = true
	}
	globalsRule(c, p, R, reach, 10)
	n := 0
	for _, fn := range p.Funcs("benchunit") {
		if fn.Parent() != nil {
			continue
		}
		var roots []ssa.Value
		for _, prm := range fn.Params {
			if _, ok := prm.Type().Underlying().(*types.Slice); ok {
				roots = append(roots, prm)
			}
		}
		if len(roots) == 0 {
			continue
		}
		n++
		ins, what := writesThrough(fn, roots)
		for i, in := range ins {
			c.Bad(R, fmt.Sprintf("%s:writes-argument#%d", fnName(fn), i+1), p.pos(in.Pos()), "the function "+what[i]+" the slice it was handed (or a reslice of it, which shares its backing array): the caller's values are overwritten — a row is scaled by CommonScale(row) and then formatted value by value, so the printed mantissas no longer belong to the row's values")
		}
	}
	// both matchers must still fire on their stored examples
	ctl := mustLoad(c, loadOpts{dir: c.HomeDir + "/checker"}, "./testdata/lookbehind")
	nW, nS := 0, 0
	for _, fn := range ctl.Funcs("perfcheck/testdata/lookbehind") {
		var roots []ssa.Value
		for _, prm := range fn.Params {
			if _, ok := prm.Type().Underlying().(*types.Slice); ok {
				roots = append(roots, prm)
			}
		}
		ins, _ := writesThrough(fn, roots)
		nW += len(ins)
		ins2, _, _ := scratchGlobals(fn, func(g *ssa.Global) bool { return true }, func(f *types.Func) bool { return true })
		nS += len(ins2)
	}
	if nW == 0 || nS == 0 {
		c.Undecided(R, "positive-control", "", fmt.Sprintf("a matcher no longer recognises its own positive example (argument writes found: %d, scratch uses found: %d)", nW, nS))
	} else {
		c.OK(R, "positive-control", "checker/testdata/lookbehind/lb.go", "matchers fire on the stored in-place compaction of an argument and on the stored package-level scratch buffer")
	}
	c.Floor(R, "benchunit functions taking a slice", n, 1)
}
