// c17.go: C17 — the legacy benchstat library's tables follow its documented statistics.
package main

import (
	"fmt"
	"go/constant"
	"go/token"
	"go/types"
	"math/big"
	"sort"
	"strings"

	"golang.org/x/tools/go/ssa"
)

func init() { register("C17", checkC17) }

const lbsPkg = modPath + "/benchstat"
const istatsPkg = modPath + "/internal/stats"

func checkC17(c *Ctx) {
	c.Rule("C17/R1", "Sort resolves to sort.SliceStable (rows with equal keys keep first-appearance order), and Reverse(order)(t,i,j) is order(t,j,i), a strict order again; ByDelta(t,i,j) is |PctDelta_i|·Change_i < |PctDelta_j|·Change_j (exact evaluation at seven sample row pairs)")
	c.Rule("C17/R2", "outlier fence: quartiles are Percentile(0.25)/(0.75) of the raw values; fence q1-1.5(q3-q1) .. q3+1.5(q3-q1) computed unconditionally; a value is kept iff lo<=v && v<=hi, iterating the raw slice in order; min/max/mean are taken from the kept slice")
	c.Rule("C17/R3", "row table (DESIGN Appendix A5): test error -> '~' with a note and no delta; p<alpha (strict) -> delta; equal means -> 0.00%; else (new/old-1)*100 with %+.2f%%; improvement iff (pct<0)==(metric!=speed); p/n note iff no other note and a test ran, with the retained sample sizes")
	c.Rule("C17/R4", "the geomean takes a mean only when it is non-zero; configs/groups/benchmarks/units grow only through the append-if-absent helper in the metric-creation path")
	c.Rule("C17/R5", "map order: every map range in the package is order-independent; metricOf's first-match pick over the suffix table is allow-listed with the side obligation that at most one entry can match")

	c.Rule("C17/R6", "quartile interpolation (R8): with k the integer part of 1/3 + p(N+1/3), Percentile returns x[0] for k <= 0, x[N-1] for k >= N and x[k-1] + frac (x[k] - x[k-1]) otherwise — evaluated for N = 5 and every k from -1 to 6 by answering the clamp conditions from (k, N)")
	c.Rule("C17/R9", "retained values stay in input order (same rule as C12/R8): the quartile computation sorts a copy, never the measurements it was handed")
	c.Rule("C17/R8", "the delta tests see the retained values only: nothing on the way from TTest/UTest (including methods of adapter types they hand to the statistics package) reads Metrics.Values")
	c.Rule("C17/R16", "a remembered group is the right group: every one-slot cache in benchstat is reused only when every input of the cached computation takes part in the hit test")
	c.Rule("C17/R15", "one-sided rows are omitted by asking the collection: in Collection.Tables every nil test of a *Metrics tests a lookup in Collection.Metrics")
	c.Rule("C17/R14", "the geomean row stays last: in Collection.Tables a table is put into the requested order before its geomean row is appended")
	c.Rule("C17/R13", "the p-value behind DeltaTest=UTest is the documented one: exact exactly when both sizes are within the limit that applies, ties flagged (same rule as C11/R4)")
	c.Rule("C17/R12", "a configuration is a column from the moment it is added: every exported Collection method that feeds results under a configuration name stores into Configs on every path")
	c.Rule("C17/R11", "the t-test behind DeltaTest=TTest is the documented one (same rules as C12/R1 and R2): guards (two samples are refused only when both variances are zero), statistic and degrees of freedom")
	c.Rule("C17/R10", "the geomean row's delta follows the same formula as a benchmark row's: (second geomean / first geomean - 1)*100, printed with %+.2f%%")
	c.Rule("C17/R7", "the geometric mean behind the geomean row accumulates in the log domain (same rule as C12/R7): no running product of raw means")
	p := mustLoad(c, loadOpts{}, "./benchstat", "./internal/stats", "./storage/benchfmt")
	c17Sort(c, p)
	c17Fence(c, p)
	c17Rows(c, p)
	c17Geomean(c, p)
	c17Maps(c, p)
	c17Percentile(c, p)
	c12GeoMean(c, p, "C17/R7")
	c17ByDelta(c, p)
	c17Retained(c, p)
	c12NoReorder(c, p, "C17/R9")
	c17GeomeanDelta(c, p)
	c17ConfigRegistered(c, p)
	c17SortBeforeGeomean(c, p)
	c17OneSidedByLookup(c, p)
	slotMemoRule(c, p, "C17/R16", true, "benchstat")
	if u := p.Fn("internal/stats", "MannWhitneyUTest"); u != nil {
		c.Under("C11/R4", "C17/R13", func() { c11Ties(c, p, u) })
	} else {
		c.Undecided("C17/R13", "anchor:MannWhitneyUTest", "", "not found")
	}
	// the delta test's p-value is the test's: the t-tests' guards and closed forms (same rules as C12/R1 and R2)
	c.Under("C12/R1", "C17/R11", func() {
		c.Under("C12/R2", "C17/R11", func() { c12TTests(c, p) })
	})
}

// c17GeomeanDelta (C17/R10): the geomean row's delta is the same percentage as a benchmark row's, taken between the
// two geometric means: wherever the row's PctDelta is stored, its value is (g[1]/g[0] - 1)*100 with g[k] the k-th
// collected geomean, and Delta is that value under %+.2f%%. Decides the formula, not which configuration g[k] is.
func c17GeomeanDelta(c *Ctx, p *Prog) {
	const R = "C17/R10"
	pctF := p.Field("benchstat", "Row", "PctDelta")
	var fn *ssa.Function
	for _, f := range p.Funcs("benchstat") {
		if len(callsIn(f, istatsPkg, "", "GeoMean")) > 0 && pctF != nil && len(storesToField(f, pctF)) > 0 {
			fn = f
		}
	}
	if fn == nil {
		c.Undecided(R, "anchor:geomean row", "", "no function that takes geometric means and stores a row's PctDelta")
		return
	}
	site := p.pos(fn.Pos())
	mk := func() *e6Interp {
		return &e6Interp{PureCall: func(f *types.Func) bool { return true },
			Inline: func(f *ssa.Function) bool {
				if f.Pkg != fn.Pkg || f == fn || f.Parent() != nil || f.Signature.Recv() != nil || len(naturalLoops(f)) > 0 || len(f.Blocks) > 8 {
					return false
				}
				sig := f.Signature
				if sig.Results().Len() != 1 || !isFloat(sig.Results().At(0).Type()) || sig.Params().Len() == 0 {
					return false
				}
				for i := 0; i < sig.Params().Len(); i++ {
					if !isFloat(sig.Params().At(i).Type()) {
						return false
					}
				}
				return true
			}}
	}
	outs, why := regionOutcomes(fn, mk, 512)
	if why != "" {
		c.Undecided(R, "geomean-row:table", site, why)
		return
	}
	leaf := func(s *Sym) string {
		if s.Op == "load" && len(s.Args) == 1 && s.Args[0].Op == "indexaddr" && len(s.Args[0].Args) == 2 && s.Args[0].Args[1].isConst() && isFloat2(s.Type) {
			return "g" + s.Args[0].Args[1].String()
		}
		return ""
	}
	ref := func(g func(string) *big.Rat) *big.Rat {
		return rMul(rSub(rQuo(g("g1"), g("g0")), rat(1, 1)), rat(100, 1))
	}
	pts := []map[string]*big.Rat{{"g0": rat(7, 3), "g1": rat(5, 2)}, {"g0": rat(11, 1), "g1": rat(4, 1)}}
	n := 0
	seen := map[string]bool{}
	for _, o := range outs {
		var pct, delta *Sym
		for _, k := range sortedKeys(o.Mem) {
			if !strings.HasPrefix(k, "&") || strings.Contains(k, "Metrics") {
				continue
			}
			switch {
			case strings.HasSuffix(k, ".PctDelta"):
				pct = o.Mem[k]
			case strings.HasSuffix(k, ".Delta"):
				delta = o.Mem[k]
			}
		}
		if pct == nil {
			continue
		}
		if seen[pct.String()] {
			continue
		}
		seen[pct.String()] = true
		n++
		key := fmt.Sprintf("geomean-row:delta#%d", n)
		ok, detail := e7Equal(pct, ref, pts, leaf)
		if ok {
			ok, detail = false, "the row's Delta text is not the percentage under %+.2f%%"
			if delta != nil && delta.Op == "call" && strings.HasPrefix(delta.Name, "fmt.Sprintf") {
				fs, _ := constString2(delta.Args[0])
				args := o.VarArgs(e6Action{Args: delta.Args})
				if fs == "%+.2f%%" && len(args) == 1 {
					ok, detail = e7Equal(args[0], ref, pts, leaf)
				}
			}
		}
		c.Check(ok, R, key, site, "the geomean row's delta is (second geomean / first geomean - 1)*100 under %+.2f%%", "geomean row: "+detail+"; documented (new/old - 1)*100 between the two geometric means")
	}
	c.Floor(R, "stores of the geomean row's delta", n, 1)
}

func c17Sort(c *Ctx, p *Prog) {
	const R = "C17/R1"
	fn := p.Fn("benchstat", "Sort")
	if fn == nil {
		c.Undecided(R, "anchor:benchstat.Sort", "", "function not found")
		return
	}
	var callee string
	n := 0
	eachInstr(fn, func(_ *ssa.BasicBlock, in ssa.Instruction) {
		if ci, ok := in.(ssa.CallInstruction); ok {
			if co := calleeObj(ci.Common()); co != nil && co.Pkg() != nil && (co.Pkg().Path() == "sort" || co.Pkg().Path() == "slices") {
				callee = co.Pkg().Path() + "." + co.Name()
				n++
			}
		}
	})
	stable := map[string]bool{"sort.SliceStable": true, "sort.Stable": true, "slices.SortStableFunc": true}
	c.Check(n == 1 && stable[callee], R, "Sort:stable", p.pos(fn.Pos()), "rows are sorted with "+callee, "rows are sorted with "+callee+", which is not stable: rows with equal keys (ties under ByDelta, equal names across groups) lose first-appearance order")
	// a stable sort keeps ties in place only under a strict order: the reversed order must be the order with its
	// arguments exchanged (which is strict again), not its negation (which calls equal rows "less" both ways)
	rev := p.Fn("benchstat", "Reverse")
	if rev == nil || len(rev.AnonFuncs) != 1 {
		c.Undecided(R, "anchor:benchstat.Reverse", "", "Reverse or its returned function not found")
		return
	}
	cl := rev.AnonFuncs[0]
	okRev, detail := false, "the returned function does not return a call of the given order"
	for _, b := range cl.Blocks {
		ret, ok := b.Instrs[len(b.Instrs)-1].(*ssa.Return)
		if !ok || len(ret.Results) != 1 {
			continue
		}
		call, ok := retVal(ret, 0).(*ssa.Call)
		if !ok {
			if u, isU := retVal(ret, 0).(*ssa.UnOp); isU && u.Op == token.NOT {
				detail = "it returns the negation of the given order"
			}
			continue
		}
		args := call.Call.Args
		if len(args) == 3 && len(cl.Params) == 3 && args[0] == cl.Params[0] && args[1] == cl.Params[2] && args[2] == cl.Params[1] {
			okRev = true
		} else {
			detail = "the given order is not called with the two row indices exchanged"
		}
	}
	c.Check(okRev, R, "Reverse:exchanges-arguments", p.pos(rev.Pos()), "Reverse(order)(t,i,j) is order(t,j,i)",
		"Reverse does not yield the order with its arguments exchanged ("+detail+"): the result is not a strict order, so under the stable sort rows with equal keys (all '~' rows under ByDelta, every row of a single-configuration table) come out in reversed instead of first-appearance order")
}

// c17ByDelta: ByDelta(t,i,j) is |PctDelta_i|·Change_i < |PctDelta_j|·Change_j — evaluated exactly at sample rows, with
// every branch of the function answered at the sample.
func c17ByDelta(c *Ctx, p *Prog) {
	const R = "C17/R1"
	fn := p.Fn("benchstat", "ByDelta")
	pctF := p.Field("benchstat", "Row", "PctDelta")
	chgF := p.Field("benchstat", "Row", "Change")
	if fn == nil || pctF == nil || chgF == nil || len(fn.Params) != 3 {
		c.Undecided(R, "anchor:benchstat.ByDelta", "", "ByDelta or Row.PctDelta/Change not found")
		return
	}
	site := p.pos(fn.Pos())
	pi, pj := "param:"+fn.Params[1].Name(), "param:"+fn.Params[2].Name()
	leaf := func(s *Sym) string {
		which := func() string {
			str := s.String()
			hi, hj := strings.Contains(str, pi+")") || strings.Contains(str, pi+"]") || strings.Contains(str, pi+","), strings.Contains(str, pj+")") || strings.Contains(str, pj+"]") || strings.Contains(str, pj+",")
			switch {
			case hi && !hj:
				return "i"
			case hj && !hi:
				return "j"
			}
			return ""
		}
		switch {
		case s.IsFieldLoad(pctF):
			if w := which(); w != "" {
				return "p" + w
			}
		case s.IsFieldLoad(chgF):
			if w := which(); w != "" {
				return "c" + w
			}
		}
		return ""
	}
	pts := []map[string]*big.Rat{
		{"pi": rat(5, 1), "ci": rat(1, 1), "pj": rat(3, 1), "cj": rat(1, 1)},
		{"pi": rat(5, 1), "ci": rat(-1, 1), "pj": rat(3, 1), "cj": rat(1, 1)},
		{"pi": rat(-4, 1), "ci": rat(-1, 1), "pj": rat(-2, 1), "cj": rat(1, 1)},
		{"pi": rat(2, 1), "ci": rat(0, 1), "pj": rat(-1, 1), "cj": rat(-1, 1)},
		{"pi": rat(-7, 1), "ci": rat(1, 1), "pj": rat(6, 1), "cj": rat(1, 1)},
		{"pi": rat(3, 1), "ci": rat(1, 1), "pj": rat(3, 1), "cj": rat(1, 1)},
		{"pi": rat(-3, 2), "ci": rat(1, 1), "pj": rat(9, 4), "cj": rat(-1, 1)},
	}
	n := 0
	for k, pt := range pts {
		env := &ratEnv{leaves: map[string]*big.Rat{}, salt: k + 1, leafOf: leaf, named: pt}
		evalBool := func(s *Sym) (res bool, ok bool) {
			defer func() {
				if r := recover(); r != nil {
					if _, isE := r.(e7Err); isE {
						res, ok = false, false
						return
					}
					panic(r)
				}
			}()
			if s.Op == "const" && s.Const != nil && s.Const.Kind() == constant.Bool {
				return constant.BoolVal(s.Const), true
			}
			if s.Op != "binop" {
				return false, false
			}
			a, b := ufEval(env, s.Args[0]), ufEval(env, s.Args[1])
			switch s.Tok {
			case token.LSS:
				return a.Cmp(b) < 0, true
			case token.LEQ:
				return a.Cmp(b) <= 0, true
			case token.GTR:
				return a.Cmp(b) > 0, true
			case token.GEQ:
				return a.Cmp(b) >= 0, true
			case token.EQL:
				return a.Cmp(b) == 0, true
			case token.NEQ:
				return a.Cmp(b) != 0, true
			}
			return false, false
		}
		outs, why := e6Enumerate(func() *e6Interp {
			return &e6Interp{PureCall: func(f *types.Func) bool { return true }, Decide: evalBool, MaxAtoms: 16, Inline: func(f *ssa.Function) bool {
				return f.Pkg == fn.Pkg && f.Blocks != nil && len(naturalLoops(f)) == 0
			}}
		}, fn.Blocks[0], nil, nil, 64)
		key := fmt.Sprintf("ByDelta[pct_i=%s change_i=%s pct_j=%s change_j=%s]", pt["pi"].RatString(), pt["ci"].RatString(), pt["pj"].RatString(), pt["cj"].RatString())
		if why != "" || len(outs) != 1 || outs[0].Term != "return" || len(outs[0].Results) != 1 {
			c.Undecided(R, key, site, fmt.Sprintf("the order is not decided at this sample (%s, %d paths)", why, len(outs)))
			continue
		}
		got, ok := evalBool(outs[0].Results[0])
		if !ok {
			c.Undecided(R, key, site, "cannot evaluate the result "+truncate(outs[0].Results[0].String(), 160))
			continue
		}
		n++
		want := rMul(rAbs(pt["pi"]), pt["ci"]).Cmp(rMul(rAbs(pt["pj"]), pt["cj"])) < 0
		c.Check(got == want, R, key, site, fmt.Sprintf("before=%v", got), fmt.Sprintf("ByDelta says row i sorts before row j = %v; with the documented key |delta|·change (improvements first, the order reversed when larger is better) it is %v", got, want))
	}
	c.Floor(R, "ByDelta sample rows", n, 7)
}

// c17Retained (C17/R8): the delta tests see the retained values only.
func c17Retained(c *Ctx, p *Prog) {
	const R = "C17/R8"
	valuesF := p.Field("benchstat", "Metrics", "Values")
	rvaluesF := p.Field("benchstat", "Metrics", "RValues")
	var roots []*ssa.Function
	for _, name := range []string{"TTest", "UTest"} {
		if fn := p.Fn("benchstat", name); fn != nil {
			roots = append(roots, fn)
		}
	}
	if valuesF == nil || rvaluesF == nil || len(roots) != 2 {
		c.Undecided(R, "anchor:TTest/UTest", "", "delta tests or Metrics fields not found")
		return
	}
	// adapter types handed to the statistics package as interfaces bring their methods along
	seenT := map[types.Type]bool{}
	fns := staticReach(roots, modPath+"/benchstat")
	for i := 0; i < len(fns); i++ {
		eachInstr(fns[i], func(_ *ssa.BasicBlock, in ssa.Instruction) {
			mi, ok := in.(*ssa.MakeInterface)
			if !ok || seenT[mi.X.Type()] {
				return
			}
			seenT[mi.X.Type()] = true
			ms := p.SSA.MethodSets.MethodSet(mi.X.Type())
			for k := 0; k < ms.Len(); k++ {
				if m := p.SSA.MethodValue(ms.At(k)); m != nil && m.Pkg != nil && m.Pkg.Pkg.Path() == modPath+"/benchstat" {
					for _, g := range staticReach([]*ssa.Function{m}, modPath+"/benchstat") {
						dup := false
						for _, h := range fns {
							dup = dup || h == g
						}
						if !dup {
							fns = append(fns, g)
						}
					}
				}
			}
		})
	}
	nR := 0
	for _, fn := range fns {
		k := 0
		eachInstr(fn, func(_ *ssa.BasicBlock, in ssa.Instruction) {
			var f *types.Var
			switch x := in.(type) {
			case *ssa.FieldAddr:
				f, _ = fieldOfAddr(x)
			case *ssa.Field:
				f, _ = fieldOfVal(x)
			}
			switch f {
			case rvaluesF:
				nR++
			case valuesF:
				k++
				c.Bad(R, fmt.Sprintf("%s:reads-Values#%d", fnName(fn), k), p.pos(in.Pos()), "a delta test reads Metrics.Values, the unfiltered measurements: the tests are documented to run on the values retained after outlier removal (the sample sizes shown next to p are the retained ones), so an outlier that was dropped from the mean still moves the p-value or the degrees of freedom")
			}
		})
	}
	c.OK(R, "delta-tests:retained-only", "", fmt.Sprintf("%d functions on the way from TTest/UTest, %d reads of RValues, none of Values", len(fns), nR))
	c.Floor(R, "reads of the retained values in the delta tests", nR, 3)
}

func c17Fence(c *Ctx, p *Prog) {
	const R = "C17/R2"
	valuesF := p.Field("benchstat", "Metrics", "Values")
	rvaluesF := p.Field("benchstat", "Metrics", "RValues")
	if valuesF == nil || rvaluesF == nil {
		c.Undecided(R, "anchor:Metrics.Values/RValues", "", "fields not found")
		return
	}
	// the function that appends to RValues
	var fn *ssa.Function
	for _, f := range p.Funcs("benchstat") {
		for _, st := range storesToField(f, rvaluesF) {
			if call, ok := st.Val.(*ssa.Call); ok {
				if b, ok := call.Call.Value.(*ssa.Builtin); ok && b.Name() == "append" {
					fn = f
				}
			}
		}
	}
	if fn == nil {
		c.Undecided(R, "anchor:outlier filter", "", "no function appends to Metrics.RValues")
		return
	}
	site := p.pos(fn.Pos())
	loops := naturalLoops(fn)
	if len(loops) != 1 {
		c.Undecided(R, "fence:loop", site, fmt.Sprintf("expected one loop over the raw values, found %d", len(loops)))
		return
	}
	lp := loops[0]
	mk := func() *e6Interp {
		return &e6Interp{PureCall: func(f *types.Func) bool { return f.Pkg() != nil && f.Pkg().Path() == istatsPkg },
			// a fence computation moved into a helper of the package is evaluated in place
			Inline: func(f *ssa.Function) bool {
				return f.Pkg != nil && f.Pkg.Pkg.Path() == modPath+"/benchstat" && f.Parent() == nil && len(naturalLoops(f)) == 0 && len(f.Blocks) <= 10
			}}
	}
	// entry .. one iteration (the second visit of the header ends the run)
	stop := map[*ssa.BasicBlock]bool{}
	for b := range lp.exits() {
		stop[b] = true
	}
	outs, why := e6Enumerate(mk, fn.Blocks[0], nil, stop, 256)
	if why != "" {
		c.Undecided(R, "fence:table", site, why)
		return
	}
	isPct := func(s *Sym, q float64) bool {
		if s.Op != "call" || !strings.Contains(s.Name, "Percentile") || len(s.Args) != 2 {
			return false
		}
		if !s.Args[1].isConst() || s.Args[1].Const == nil {
			return false
		}
		f, _ := constant.Float64Val(s.Args[1].Const)
		if f != q {
			return false
		}
		// receiver built from the raw values
		return strings.Contains(s.Args[0].String(), "Values") && !strings.Contains(s.Args[0].String(), "RValues")
	}
	leafOf := func(s *Sym) string {
		switch {
		case isPct(s, 0.25):
			return "q1"
		case isPct(s, 0.75):
			return "q3"
		}
		return ""
	}
	nIter := 0
	for _, o := range outs {
		var lowOK, highOK *bool
		var loSym, hiSym, elem *Sym
		var other []string
		for _, k := range o.AtomKeys() {
			v := o.Assign[k]
			_ = v
			s := o.AtomSyms[k]
			vv := v
			switch {
			case s.Op == "binop" && s.Tok == token.LSS && s.Args[1].Op == "call" && s.Args[1].Name == "len":
				// loop condition
			case s.Op == "binop" && s.Tok == token.LEQ && isElem(s.Args[1], valuesF):
				lowOK, loSym, elem = &vv, s.Args[0], s.Args[1]
			case s.Op == "binop" && s.Tok == token.LEQ && isElem(s.Args[0], valuesF):
				highOK, hiSym = &vv, s.Args[1]
			default:
				other = append(other, k)
			}
		}
		if len(other) > 0 {
			c.Bad(R, "fence:unconditional", site, "the outlier filter consults a condition besides the two fence comparisons ("+strings.Join(other, "; ")+"): some inputs bypass the 1.5·IQR fence (e.g. a degenerate IQR keeps every value), so min/mean/max and the retained sample sizes are not those of the documented filter")
			return
		}
		if lowOK == nil {
			continue // loop not entered / exits
		}
		nIter++
		keep := false
		for _, a := range o.Actions {
			if a.Kind == "store" && a.Args[0].Op == "fieldaddr" && a.Args[0].Obj == rvaluesF {
				v := a.Args[1]
				if v.Op == "call" && v.Name == "append" && len(v.Args) >= 2 {
					keep = true
					// appended element is the visited value
					va := o.VarArgs(e6Action{Args: v.Args})
					if len(va) != 1 || (elem != nil && va[0].String() != elem.String()) {
						c.Bad(R, "fence:keeps-visited-value", site, "the value appended to the retained sample is not the visited raw value")
					}
				}
			}
		}
		inside := *lowOK && (highOK != nil && *highOK)
		key := fmt.Sprintf("fence[lo<=v=%v v<=hi=%s]", *lowOK, boolPtrStr(highOK))
		c.Check(keep == inside, R, key, site, fmt.Sprintf("kept=%v", keep), fmt.Sprintf("a value with lo<=v=%v, v<=hi=%s is kept=%v; the filter must keep exactly the values inside the fence", *lowOK, boolPtrStr(highOK), keep))
		// formulas
		pts := []map[string]*big.Rat{{"q1": rat(3, 1), "q3": rat(11, 2)}, {"q1": rat(-7, 2), "q3": rat(5, 4)}, {"q1": rat(10, 1), "q3": rat(10, 1)}}
		if loSym != nil {
			ok, d := e7Equal(loSym, func(g func(string) *big.Rat) *big.Rat {
				return rSub(g("q1"), rMul(rat(3, 2), rSub(g("q3"), g("q1"))))
			}, pts, leafOf)
			c.Check(ok, R, "fence:lower-formula", site, "lo = q1 - 1.5(q3-q1) with q1,q3 = Percentile(0.25/0.75) of the raw values", "lower fence: "+d)
		}
		if hiSym != nil {
			ok, d := e7Equal(hiSym, func(g func(string) *big.Rat) *big.Rat {
				return rAdd(g("q3"), rMul(rat(3, 2), rSub(g("q3"), g("q1"))))
			}, pts, leafOf)
			c.Check(ok, R, "fence:upper-formula", site, "hi = q3 + 1.5(q3-q1)", "upper fence: "+d)
		}
	}
	c.Floor(R, "fence iteration cases", nIter, 2)
	// statistics from the kept slice
	okStats := map[string]bool{}
	eachInstr(fn, func(_ *ssa.BasicBlock, in ssa.Instruction) {
		call, ok := in.(*ssa.Call)
		if !ok {
			return
		}
		co := calleeObj(&call.Call)
		if co == nil || co.Pkg() == nil || co.Pkg().Path() != istatsPkg {
			return
		}
		if co.Name() == "Bounds" || co.Name() == "Mean" {
			f, _ := loadOfField(call.Call.Args[0])
			okStats[co.Name()] = f == rvaluesF
		}
	})
	c.Check(okStats["Bounds"] && okStats["Mean"], R, "fence:stats-of-kept", site, "min/max/mean are computed from the retained values", fmt.Sprintf("min/max/mean are not all computed from the retained values (%v)", okStats))
}

func isElem(s *Sym, sliceField *types.Var) bool {
	return s != nil && s.Op == "load" && s.Args[0].Op == "indexaddr" && s.Args[0].Args[0].IsFieldLoad(sliceField)
}

func c17Rows(c *Ctx, p *Prog) {
	const R = "C17/R3"
	fn := p.Method("benchstat", "Collection", "Tables")
	if fn == nil {
		c.Undecided(R, "anchor:Collection.Tables", "", "method not found")
		return
	}
	site := p.pos(fn.Pos())
	tablesFn := fn
	// the dynamic call of the delta test
	var test *ssa.Call
	eachInstr(fn, func(_ *ssa.BasicBlock, in ssa.Instruction) {
		if call, ok := in.(*ssa.Call); ok && call.Call.StaticCallee() == nil && !call.Call.IsInvoke() {
			if sig, ok := call.Call.Value.Type().Underlying().(*types.Signature); ok && sig.Results().Len() == 2 && isFloat(sig.Results().At(0).Type()) && isErrorType(sig.Results().At(1).Type()) {
				test = call
			}
		}
	})
	if test == nil {
		// the comparison of one row moved into a function of the package that Tables calls (row.compare(old, new, …))
		var callees []*ssa.Function
		eachInstr(fn, func(_ *ssa.BasicBlock, in ssa.Instruction) {
			if call, ok := in.(*ssa.Call); ok {
				if h := call.Call.StaticCallee(); h != nil && h.Pkg == fn.Pkg && h.Blocks != nil && h != fn {
					callees = append(callees, h)
				}
			}
		})
		for _, h := range callees {
			eachInstr(h, func(_ *ssa.BasicBlock, in ssa.Instruction) {
				if call, ok := in.(*ssa.Call); ok && call.Call.StaticCallee() == nil && !call.Call.IsInvoke() && test == nil {
					if sig, ok := call.Call.Value.Type().Underlying().(*types.Signature); ok && sig.Results().Len() == 2 && isFloat(sig.Results().At(0).Type()) && isErrorType(sig.Results().At(1).Type()) {
						test = call
						fn = h
					}
				}
			})
		}
	}
	if test == nil {
		c.Undecided(R, "rows:test-call", site, "no call of the configured delta test found")
		return
	}
	start := test.Block()
	stop := map[*ssa.BasicBlock]bool{}
	for _, b := range fn.Blocks {
		if !start.Dominates(b) {
			stop[b] = true
		}
	}
	rowsF := p.Field("benchstat", "Table", "Rows")
	// also stop where the row is appended to the table
	for _, b := range fn.Blocks {
		for _, in := range b.Instrs {
			if st, ok := in.(*ssa.Store); ok {
				if f, _ := fieldOfAddr(st.Addr); f == rowsF && b != start {
					stop[b] = true
				}
			}
		}
	}
	init := map[ssa.Value]*Sym{
		test.Call.Args[0]: {Op: "param", Name: "old", Type: test.Call.Args[0].Type()},
		test.Call.Args[1]: {Op: "param", Name: "new", Type: test.Call.Args[1].Type()},
	}
	mk := func() *e6Interp {
		return &e6Interp{Init: init, PureCall: func(f *types.Func) bool {
			return f.Pkg() != nil && (f.Pkg().Path() == "fmt" || f.Pkg().Path() == "math")
		},
			// arithmetic helpers of the package (floats in, a float out, no loop) are evaluated in place
			Inline: func(f *ssa.Function) bool {
				if f.Pkg != fn.Pkg || f == fn || f.Parent() != nil || f.Signature.Recv() != nil || len(naturalLoops(f)) > 0 || len(f.Blocks) > 8 {
					return false
				}
				sig := f.Signature
				if sig.Results().Len() != 1 || !isFloat(sig.Results().At(0).Type()) || sig.Params().Len() == 0 {
					return false
				}
				for i := 0; i < sig.Params().Len(); i++ {
					if !isFloat(sig.Params().At(i).Type()) {
						return false
					}
				}
				return true
			}}
	}
	outs, why := e6Enumerate(mk, start, nil, stop, 4096)
	if why != "" {
		c.Undecided(R, "rows:table", site, why)
		return
	}
	meanF := p.Field("benchstat", "Metrics", "Mean")
	rvaluesF := p.Field("benchstat", "Metrics", "RValues")
	n := 0
	seenKeys := map[string]bool{}
	for _, o := range outs {
		errKind := "" // "", "nil", "known", "other"
		var sig, same, neg, notSpeed, noteEmpty, ran *bool
		looseGate := false
		wrongDirection := ""
		unknown := ""
		infeasible := false
		for _, k := range o.AtomKeys() {
			v := o.Assign[k]
			_ = v
			s := o.AtomSyms[k]
			vv := v
			str := s.String()
			switch {
			case s.Op == "binop" && s.Tok == token.EQL && s.Args[0].Op == "call" && strings.HasPrefix(s.Args[0].Name, "fmt.Sprintf") && s.Args[1].isConst():
				// a note just formatted with literal text is never empty
				if v {
					infeasible = true
				}
				f := false
				noteEmpty = &f
			case s.Op == "binop" && s.Tok == token.EQL && strings.Contains(str, "#1") && strings.Contains(str, "global:"):
				// testerr == some sentinel
				if v {
					errKind = "known"
				}
			case s.Op == "binop" && s.Tok == token.EQL && strings.Contains(str, "#1") && s.Args[1].isConst() && s.Args[1].IsNil:
				if v {
					if errKind == "" {
						errKind = "nil"
					}
				} else if errKind == "" {
					errKind = "other"
				}
			case s.Op == "binop" && s.Tok == token.LSS && strings.Contains(s.Args[0].String(), "#0") && strings.Contains(s.Args[0].String(), "dyn"):
				sig = &vv
			case s.Op == "binop" && s.Tok == token.LEQ && strings.Contains(s.Args[0].String(), "#0") && strings.Contains(s.Args[0].String(), "dyn"):
				sig = &vv
				looseGate = true
			case s.Op == "binop" && s.Tok == token.EQL && s.Args[0].IsFieldLoad(meanF) && s.Args[1].IsFieldLoad(meanF):
				same = &vv
			case s.Op == "binop" && s.Args[1].isConst() && !isZeroConst(s.Args[1]) && strings.Contains(s.Args[0].String(), ".Mean") && (s.Tok == token.LSS || s.Tok == token.LEQ || s.Tok == token.GTR || s.Tok == token.GEQ):
				// a quantity in the unit of the measurements compared with an absolute constant
				c.Bad(R, "rows:absolute-tolerance", site, "the row logic compares "+truncate(s.Args[0].String(), 100)+" with the constant "+s.Args[1].String()+": the means carry the unit of the measurements, so an absolute tolerance is a different test for seconds than for nanoseconds — a significant change between values around 1e-10 is reported as 0.00% and not flagged (equal means are means that compare ==)")
				return
			case s.Op == "binop" && s.Tok == token.LSS && s.Args[1].isConst() && !strings.Contains(s.Args[0].String(), "dyn@") || (s.Op == "binop" && s.Tok == token.LSS && s.Args[1].isConst() && strings.Contains(str, ".Mean")):
				neg = &vv
			case s.Op == "binop" && s.Tok == token.LSS && s.Args[0].isConst() && strings.Contains(s.Args[1].String(), ".Mean"):
				// 0 < pct: for differing means this is the complement of pct < 0
				t := !v
				neg = &t
			case s.Op == "binop" && s.Tok == token.EQL && strings.Contains(str, "Metric") && strings.Contains(str, "\"speed\""):
				t := !v
				notSpeed = &t
			case s.Op == "binop" && s.Tok == token.EQL && s.Args[0].Op == "param" && strings.Contains(str, "\"speed\"") && fn != tablesFn && func() bool {
				// the metric handed to the row's comparison function: table.Metric at the call in Tables
				okArg := false
				eachInstr(tablesFn, func(_ *ssa.BasicBlock, in ssa.Instruction) {
					if call, isCall := in.(*ssa.Call); isCall && call.Call.StaticCallee() == fn {
						for i, prm := range fn.Params {
							if prm.Name() == s.Args[0].Name && i < len(call.Call.Args) {
								if f, _ := loadOfField(call.Call.Args[i]); f != nil && f.Name() == "Metric" {
									okArg = true
								}
							}
						}
					}
				})
				return okArg
			}():
				t := !v
				notSpeed = &t
			case s.Op == "binop" && s.Tok == token.EQL && strings.Contains(s.Args[0].String(), ".Unit") && s.Args[1].isConst() && s.Args[1].String() == "\"MB/s\"":
				// the only unit whose metric is "speed" is MB/s itself (metricOf: exact match in the suffix table)
				t := !v
				notSpeed = &t
			case s.Op == "opaque" && isBoolT(s.Type) && c17MetricTest(fn, s.Name) != 0:
				// the metric test hoisted out of the row loop: table.Metric != "speed" computed once per table
				t := (c17MetricTest(fn, s.Name) > 0) == v
				notSpeed = &t
			case strings.Contains(str, ".Unit") || strings.Contains(str, "hasBaseUnit") || strings.Contains(str, "HasSuffix"):
				wrongDirection = k
			case s.Op == "binop" && s.Tok == token.EQL && strings.Contains(str, "Note"):
				noteEmpty = &vv
			case s.Op == "binop" && s.Tok == token.EQL && strings.Contains(s.Args[0].String(), "#0") && s.Args[1].isConst():
				t := !v // pval == -1
				ran = &t
			default:
				unknown = k
			}
		}
		if infeasible {
			continue
		}
		if wrongDirection != "" {
			c.Bad(R, "rows:direction-predicate", site, "the row logic branches on "+truncate(wrongDirection, 160)+", a predicate on the unit's spelling; the better direction is a property of the table's metric (improvement iff (pct<0) == (metric != speed)), and units such as read-MB/s have the metric read-speed, not speed, so their change marks, HTML classes and ByDelta order are inverted")
			continue
		}
		if unknown != "" {
			c.Undecided(R, "rows:atoms", site, "condition outside the table: "+unknown)
			return
		}
		// final row fields from memory
		get := func(field string) *Sym {
			for k, v := range o.Mem {
				if strings.HasSuffix(k, "."+field) && strings.HasPrefix(k, "&") && !strings.Contains(k, "Metrics") {
					return v
				}
			}
			return nil
		}
		delta, note, change := get("Delta"), get("Note"), get("Change")
		key := fmt.Sprintf("row[err=%s sig=%s same=%s neg=%s notSpeed=%s ran=%s]", errKind, boolPtrStr(sig), boolPtrStr(same), boolPtrStr(neg), boolPtrStr(notSpeed), boolPtrStr(ran))
		if seenKeys[key] {
			continue
		}
		seenKeys[key] = true
		n++
		var errs []string
		dstr, dIsConst := constString2(delta)
		switch {
		case errKind == "known" || errKind == "other":
			if !dIsConst || dstr != "~" {
				errs = append(errs, "a failed test must show '~'")
			}
			if ns, ok := constString2(note); note == nil || (ok && ns == "") {
				errs = append(errs, "a failed test must carry a note naming the reason")
			}
			if change != nil {
				if cv, ok := change.boolConst(); ok && cv {
					errs = append(errs, "a failed test must not be flagged as a change")
				} else if change.isConst() && change.Const != nil && constant.Sign(change.Const) != 0 {
					errs = append(errs, "a failed test must not be flagged as a change")
				}
			}
		case errKind == "nil" && sig != nil && looseGate:
			errs = append(errs, "the significance gate is p <= alpha; a delta must appear only if p is strictly below alpha (a p-value equal to alpha is not significant)")
		case errKind == "nil" && sig != nil && !*sig:
			if !dIsConst || dstr != "~" {
				errs = append(errs, "an insignificant difference must show '~'")
			}
		case errKind == "nil" && sig != nil && *sig && same != nil && *same:
			if !dIsConst || dstr != "0.00%" {
				errs = append(errs, "equal means must show 0.00%")
			}
		case errKind == "nil" && sig != nil && *sig && same != nil && !*same:
			okF := false
			detail := "the delta is not rendered with Sprintf"
			if delta != nil && delta.Op == "call" && strings.HasPrefix(delta.Name, "fmt.Sprintf") {
				fs, _ := constString2(delta.Args[0])
				args := o.VarArgs(e6Action{Args: delta.Args})
				if fs != "%+.2f%%" {
					detail = fmt.Sprintf("delta format %q, documented %%+.2f%%%%", fs)
				} else if len(args) == 1 {
					pts := []map[string]*big.Rat{{"old": rat(7, 3), "new": rat(5, 2)}, {"old": rat(11, 1), "new": rat(4, 1)}}
					okF, detail = e7Equal(args[0], func(g func(string) *big.Rat) *big.Rat {
						return rMul(rSub(rQuo(g("new"), g("old")), rat(1, 1)), rat(100, 1))
					}, pts, func(s *Sym) string {
						if s.IsFieldLoad(meanF) {
							switch {
							case strings.Contains(s.String(), "param:new"):
								return "new"
							case strings.Contains(s.String(), "param:old"):
								return "old"
							}
						}
						return ""
					})
				}
			}
			if !okF {
				errs = append(errs, "delta: "+detail)
			}
			if neg != nil && notSpeed != nil && change != nil && change.isConst() && change.Const != nil {
				want := int64(-1)
				if *neg == *notSpeed {
					want = 1
				}
				got, _ := constant.Int64Val(change.Const)
				if got != want {
					errs = append(errs, fmt.Sprintf("change direction %d where %d is documented (improvement iff (pct<0) == (metric != speed))", got, want))
				}
			} else {
				errs = append(errs, "a significant delta must be flagged as improvement or regression from (pct<0) and the metric's better direction")
			}
		}
		// p/n note
		if errKind == "nil" && ran != nil && *ran && noteEmpty != nil && *noteEmpty {
			okN := false
			if note != nil && note.Op == "call" && strings.HasPrefix(note.Name, "fmt.Sprintf") {
				args := o.VarArgs(e6Action{Args: note.Args})
				if len(args) == 3 && args[1].Op == "call" && args[1].Name == "len" && args[1].Args[0].IsFieldLoad(rvaluesF) && args[2].Op == "call" && args[2].Name == "len" && args[2].Args[0].IsFieldLoad(rvaluesF) {
					okN = true
				}
			}
			if !okN {
				errs = append(errs, "the p/n note must report the p-value and the retained sample sizes len(old.RValues)+len(new.RValues)")
			}
		}
		if len(errs) > 0 {
			c.Bad(R, key, site, strings.Join(errs, "; "), "valuation: "+o.AssignStr())
		} else {
			c.OK(R, key, site, "conforms")
		}
	}
	c.Floor(R, "row cases", n, 6)
}

func c17Geomean(c *Ctx, p *Prog) {
	const R = "C17/R4"
	meanF := p.Field("benchstat", "Metrics", "Mean")
	fn := p.Fn("benchstat", "addGeomean")
	n := 0
	for _, f := range p.Funcs("benchstat") {
		// functions that call stats.GeoMean on a locally collected slice
		var gm *ssa.Call
		eachInstr(f, func(_ *ssa.BasicBlock, in ssa.Instruction) {
			if call, ok := in.(*ssa.Call); ok && objIs(calleeObj(&call.Call), istatsPkg, "", "GeoMean") {
				gm = call
			}
		})
		if gm == nil {
			continue
		}
		n++
		// every append of a Mean into the collected slice is guarded by Mean != 0
		ok := true
		found := false
		notFromCollection := ""
		eachInstr(f, func(b *ssa.BasicBlock, in ssa.Instruction) {
			call, isCall := in.(*ssa.Call)
			if !isCall {
				return
			}
			bi, isB := call.Call.Value.(*ssa.Builtin)
			if !isB || bi.Name() != "append" || len(call.Call.Args) < 2 {
				return
			}
			// appended element loads Metrics.Mean?
			appendsMean := false
			if sl, isSl := call.Call.Args[1].(*ssa.Slice); isSl {
				if al, isAl := sl.X.(*ssa.Alloc); isAl {
					for _, r := range *al.Referrers() {
						if ia, isIA := r.(*ssa.IndexAddr); isIA {
							for _, r2 := range *ia.Referrers() {
								if st, isSt := r2.(*ssa.Store); isSt {
									if lf, base := loadOfField(st.Val); lf == meanF {
										appendsMean = true
										// whose mean: a metric looked up in the collection's metric table (so that
										// every benchmark the configuration ran takes part), not one taken from
										// the rows of a table (two-configuration tables omit benchmarks that one
										// side lacks)
										fromCollection := false
										var walk func(v ssa.Value, d int)
										walk = func(v ssa.Value, d int) {
											if d > 6 || v == nil {
												return
											}
											switch x := v.(type) {
											case *ssa.Lookup:
												if mf, _ := loadOfField(x.X); mf != nil && mf.Name() == "Metrics" {
													if pv, ok := mf.Type().Underlying().(*types.Map); ok && pv != nil {
														fromCollection = true
													}
												}
											case *ssa.Extract:
												walk(x.Tuple, d+1)
											case *ssa.Phi:
												for _, e := range x.Edges {
													walk(e, d+1)
												}
											case *ssa.UnOp:
												walk(x.X, d+1)
											}
										}
										walk(base, 0)
										if !fromCollection {
											notFromCollection = p.pos(st.Pos())
										}
									}
								}
							}
						}
					}
				}
			}
			if !appendsMean {
				return
			}
			found = true
			guarded := false
			for _, ft := range factsAt(b) {
				if bo, isBo := ft.Cond.(*ssa.BinOp); isBo {
					if lf, _ := loadOfField(bo.X); lf == meanF {
						if k, isK := bo.Y.(*ssa.Const); isK && k.Value != nil && constant.Sign(constant.ToFloat(k.Value)) == 0 {
							if (bo.Op == token.NEQ && ft.True) || (bo.Op == token.EQL && !ft.True) {
								guarded = true
							}
						}
					}
				}
			}
			if !guarded {
				ok = false
			}
		})
		c.Check(found && ok, R, fnName(f)+":nonzero-means", p.pos(f.Pos()), "a mean enters the geomean only when it is non-zero", "zero means are included in the geometric mean (making it zero/undefined)")
		c.Check(found && notFromCollection == "", R, fnName(f)+":means-of-the-configuration", p.pos(f.Pos()), "the means are those of the collection's metrics for the configuration and unit", "a mean entering the geomean (at "+notFromCollection+") is not read from the collection's metric table: taken from the rows of a table it misses every benchmark that a two-configuration table leaves out because the other configuration did not run it, so the geomean row is not the geometric mean of the configuration's non-zero means")
	}
	_ = fn
	c.Floor(R, "geomean computations", n, 1)
	// first appearance: in the metric-creation function, list fields grow only via the helper closure
	cfgF := p.Field("benchstat", "Collection", "Configs")
	grpF := p.Field("benchstat", "Collection", "Groups")
	unitsF := p.Field("benchstat", "Collection", "Units")
	if am := p.Method("benchstat", "Collection", "addMetrics"); am != nil {
		direct := 0
		// the helper: a closure — or a function of the package called here — that returns early when the string is
		// already present
		helperOK := false
		okHelpers := map[*ssa.Function]bool{}
		cands := append([]*ssa.Function{}, am.AnonFuncs...)
		eachInstr(am, func(_ *ssa.BasicBlock, in ssa.Instruction) {
			if call, ok := in.(*ssa.Call); ok {
				if h := call.Call.StaticCallee(); h != nil && h.Pkg == am.Pkg && h.Blocks != nil && h.Parent() == nil && h != am {
					cands = append(cands, h)
				}
			}
		})
		for _, a := range cands {
			earlyReturn := false
			appends := false
			eachInstr(a, func(b *ssa.BasicBlock, in ssa.Instruction) {
				if _, ok := in.(*ssa.Return); ok && len(naturalLoops(a)) == 1 {
					for _, lp := range naturalLoops(a) {
						if lp.Blocks[b] || func() bool {
							for _, pr := range b.Preds {
								if lp.Blocks[pr] && pr != lp.Header {
									return true
								}
							}
							return false
						}() {
							earlyReturn = true
						}
					}
				}
				if call, ok := in.(*ssa.Call); ok {
					if bi, ok := call.Call.Value.(*ssa.Builtin); ok && bi.Name() == "append" {
						appends = true
						// or: the append happens only when slices.Contains reported the string absent
						for _, f := range factsAt(b) {
							if cc, ok := f.Cond.(*ssa.Call); ok && !f.True {
								name := ""
								if sc := cc.Call.StaticCallee(); sc != nil {
									if o := sc.Origin(); o != nil {
										sc = o
									}
									if sc.Pkg != nil {
										name = sc.Pkg.Pkg.Path() + "." + sc.Name()
									} else if sc.Object() != nil && sc.Object().Pkg() != nil {
										name = sc.Object().Pkg().Path() + "." + sc.Name()
									}
								}
								if name == "slices.Contains" || name == "slices.Index" {
									earlyReturn = true
								}
							}
						}
					}
				}
			})
			if earlyReturn && appends {
				helperOK = true
				okHelpers[a] = true
			}
		}
		// a list assigned the helper's result (c.Configs = appendUnique(c.Configs, cfg)) grows through the helper
		for _, f := range []*types.Var{cfgF, grpF, unitsF} {
			for _, st := range storesToField(am, f) {
				if call, ok := st.Val.(*ssa.Call); ok && okHelpers[call.Call.StaticCallee()] {
					continue
				}
				direct++
			}
		}
		c.Check(direct == 0 && helperOK, R, "addMetrics:append-if-absent", p.pos(am.Pos()), "lists grow only through the append-if-absent helper", fmt.Sprintf("configs/groups/units are appended directly (%d direct stores) or the helper no longer skips present entries: rows or tables would repeat", direct))
	} else {
		c.Undecided(R, "anchor:addMetrics", "", "method not found")
	}
}

func c17Maps(c *Ctx, p *Prog) {
	const R = "C17/R5"
	fns := p.Funcs("benchstat", "internal/stats")
	eff := newEffects(p, fns)
	n := 0
	for _, fn := range p.Funcs("benchstat") {
		for _, mr := range classifyMapRanges(p, eff, fn) {
			n++
			if len(mr.Reasons) == 0 {
				c.OK(R, mr.Key, p.pos(mr.Pos), "order-independent: "+strings.Join(mr.Pattern, ", "))
				continue
			}
			if fn.Name() == "metricOf" {
				ok, why := suffixTableUnambiguous(p)
				if ok {
					c.Allow(R, "benchstat.metricOf", "first-match pick over the suffix table; side obligation: no '-key' is a suffix of another '-key', so at most one entry matches")
					c.OK(R, mr.Key, p.pos(mr.Pos), "first-match pick, allow-listed: at most one table entry can match a unit")
				} else {
					c.Bad(R, mr.Key, p.pos(mr.Pos), "first-match pick over a map whose entries can match the same unit: "+why)
				}
				continue
			}
			c.Bad(R, mr.Key, p.pos(mr.Pos), "the legacy tables depend on map iteration order: "+mr.Reasons[0], mr.Reasons...)
		}
	}
	c.Floor(R, "map ranges in package benchstat", n, 1)
}

// suffixTableUnambiguous evaluates the side obligation on the map literal of metricSuffix.
func suffixTableUnambiguous(p *Prog) (bool, string) {
	initFn := p.SSAPkg("benchstat").Func("init")
	var keys []string
	eachInstr(initFn, func(_ *ssa.BasicBlock, in ssa.Instruction) {
		if mu, ok := in.(*ssa.MapUpdate); ok {
			if k, ok := constString(mu.Key); ok {
				if _, ok := constString(mu.Value); ok {
					keys = append(keys, k)
				}
			}
		}
	})
	sort.Strings(keys)
	if len(keys) < 2 {
		return false, "cannot read the suffix table"
	}
	for _, a := range keys {
		for _, b := range keys {
			if a != b && strings.HasSuffix("-"+a, "-"+b) {
				return false, fmt.Sprintf("%q and %q can both match", a, b)
			}
		}
	}
	return true, ""
}

func c17Percentile(c *Ctx, p *Prog) {
	const R = "C17/R6"
	fn := p.Method("internal/stats", "Sample", "Percentile")
	if fn == nil {
		c.Undecided(R, "anchor:Sample.Percentile", "", "not found")
		return
	}
	site := p.pos(fn.Pos())
	const N = 5
	nCases := 0
	for k := -1; k <= N+1; k++ {
		k := k
		var intEval func(s *Sym) (int64, bool)
		intEval = func(s *Sym) (int64, bool) {
			str := s.String()
			switch {
			case s.Op == "const" && s.Const != nil && s.Const.Kind() == constant.Int:
				v, ok := constant.Int64Val(s.Const)
				return v, ok
			case s.Op == "convert" && strings.Contains(str, "math.Modf") && strings.Contains(str, "#0"):
				return int64(k), true
			case s.Op == "call" && s.Name == "len" && len(s.Args) == 1 && strings.Contains(s.Args[0].String(), "Xs"):
				return N, true
			case s.Op == "binop" && (s.Tok == token.ADD || s.Tok == token.SUB):
				a, ok1 := intEval(s.Args[0])
				b, ok2 := intEval(s.Args[1])
				if ok1 && ok2 {
					if s.Tok == token.ADD {
						return a + b, true
					}
					return a - b, true
				}
			case s.Op == "convert" && len(s.Args) == 1 && s.Type != nil && isInteger(s.Type) && s.Args[0].Type != nil && isInteger(s.Args[0].Type):
				return intEval(s.Args[0])
			}
			return 0, false
		}
		decide := func(s *Sym) (bool, bool) {
			if s.Op != "binop" {
				return false, false
			}
			a, ok1 := intEval(s.Args[0])
			b, ok2 := intEval(s.Args[1])
			if !ok1 || !ok2 {
				return false, false
			}
			switch s.Tok {
			case token.LSS:
				return a < b, true
			case token.LEQ:
				return a <= b, true
			case token.GTR:
				return a > b, true
			case token.GEQ:
				return a >= b, true
			case token.EQL:
				return a == b, true
			case token.NEQ:
				return a != b, true
			}
			return false, false
		}
		mk := func() *e6Interp {
			// the interpolation proper may sit in a loop-free helper of the package: evaluated in place
			return &e6Interp{PureCall: func(f *types.Func) bool { return true }, Decide: decide, MaxAtoms: 16, Inline: func(f *ssa.Function) bool {
				return f.Pkg == fn.Pkg && f.Parent() == nil && len(naturalLoops(f)) == 0 && len(callsIn(f, "math", "", "Modf")) > 0
			}}
		}
		outs, why := e6Enumerate(mk, fn.Blocks[0], nil, nil, 2048)
		if why != "" && len(outs) == 0 {
			c.Undecided(R, "Percentile", site, why)
			return
		}
		named := map[string]*big.Rat{"frac": rat(1, 4), "oob": rat(-999, 1)}
		for i := 0; i < N; i++ {
			named[fmt.Sprintf("x%d", i)] = rat(int64(10*i*i+3), 1)
		}
		leaf := func(s *Sym) string {
			if s.Op == "load" && s.Args[0].Op == "indexaddr" && strings.Contains(s.Args[0].Args[0].String(), "Xs") {
				if i, ok := intEval(s.Args[0].Args[1]); ok {
					if i < 0 || i >= N {
						return "oob"
					}
					return fmt.Sprintf("x%d", i)
				}
			}
			if s.Op == "extract" && s.Idx == 1 && strings.Contains(s.String(), "math.Modf") {
				return "frac"
			}
			return ""
		}
		want := func(g func(string) *big.Rat) *big.Rat {
			switch {
			case k <= 0:
				return g("x0")
			case k >= N:
				return g(fmt.Sprintf("x%d", N-1))
			}
			a, b := g(fmt.Sprintf("x%d", k-1)), g(fmt.Sprintf("x%d", k))
			return rAdd(a, rMul(g("frac"), rSub(b, a)))
		}
		for _, o := range outs {
			if o.Term != "return" || len(o.Results) != 1 {
				continue
			}
			rs := o.Results[0].String()
			if !strings.Contains(rs, "indexaddr") || strings.Contains(rs, "Bounds") || strings.Contains(rs, "NaN") {
				continue
			}
			// only the unweighted branch
			weighted := false
			for _, ak := range o.AtomKeys() {
				av := o.Assign[ak]
				_ = av
				as := o.AtomSyms[ak]
				if strings.Contains(ak, "Weights") && as.Op == "binop" && ((as.Tok == token.EQL && !av) || (as.Tok == token.NEQ && av)) {
					weighted = true
				}
			}
			if weighted {
				continue
			}
			nCases++
			ok, detail := e7Equal(o.Results[0], want, []map[string]*big.Rat{named}, leaf)
			c.Check(ok, R, fmt.Sprintf("Percentile[N=%d k=%d]", N, k), site, "matches the R8 interpolation", fmt.Sprintf("for %d sorted values and integer part k=%d Percentile does not return the R8 value: %s (with k = N-1 the upper quartile of a small sample becomes its maximum, so a gross outlier is inside the fence and is kept)", N, k, detail))
		}
	}
	c.Floor(R, "Percentile cases evaluated", nCases, 8)
}

func isZeroConst(s *Sym) bool {
	return s.isConst() && s.Const != nil && (s.Const.Kind() == constant.Int || s.Const.Kind() == constant.Float) && constant.Sign(s.Const) == 0
}

// c17MetricTest: the value of fn with SSA name `name` is Metric != "speed" (+1), Metric == "speed" (-1), or neither (0).
func c17MetricTest(fn *ssa.Function, name string) int {
	res := 0
	eachInstr(fn, func(_ *ssa.BasicBlock, in ssa.Instruction) {
		bo, ok := in.(*ssa.BinOp)
		if !ok || bo.Name() != name || (bo.Op != token.EQL && bo.Op != token.NEQ) {
			return
		}
		var other ssa.Value
		if s, ok := constString(bo.Y); ok && s == "speed" {
			other = bo.X
		} else if s, ok := constString(bo.X); ok && s == "speed" {
			other = bo.Y
		}
		if other == nil {
			return
		}
		if f, _ := loadOfField(other); f != nil && f.Name() == "Metric" {
			if bo.Op == token.NEQ {
				res = 1
			} else {
				res = -1
			}
		}
	})
	return res
}

// c17ConfigRegistered (C17/R12): a configuration is a column from the moment it is added, also when it contributes no
// benchmark line: every exported method of Collection that feeds results under a configuration name stores into
// Configs on every path (the store dominates each return), rather than leaving it to the first metric that turns up.
func c17ConfigRegistered(c *Ctx, p *Prog) {
	const R = "C17/R12"
	cfgF := p.Field("benchstat", "Collection", "Configs")
	add := p.Method("benchstat", "Collection", "addResult")
	if cfgF == nil || add == nil {
		c.Undecided(R, "anchor:Collection.Configs/addResult", "", "not found")
		return
	}
	n := 0
	for _, fn := range p.Funcs("benchstat") {
		if fn.Signature.Recv() == nil || recvName(fn.Signature.Recv().Type()) != "Collection" || fn.Object() == nil || !fn.Object().Exported() {
			continue
		}
		feeds := false
		eachInstr(fn, func(_ *ssa.BasicBlock, in ssa.Instruction) {
			if call, ok := in.(*ssa.Call); ok && call.Call.StaticCallee() == add {
				feeds = true
			}
		})
		if !feeds {
			continue
		}
		n++
		stores := storesToField(fn, cfgF)
		okAll := len(stores) > 0
		for _, b := range fn.Blocks {
			if _, isRet := b.Instrs[len(b.Instrs)-1].(*ssa.Return); !isRet {
				continue
			}
			dom := false
			for _, st := range stores {
				if st.Block() == b || st.Block().Dominates(b) {
					dom = true
				}
			}
			okAll = okAll && dom
		}
		c.Check(okAll, R, fnName(fn)+":registers-config", p.pos(fn.Pos()), "the configuration is registered on every path",
			"the method feeds results under a configuration name without registering the name itself on every path: a configuration none of whose lines is a benchmark line then has no column, and a three-way comparison with an empty middle configuration turns into an old/new/delta table of the outer two")
	}
	c.Floor(R, "exported methods feeding results under a configuration", n, 2)
}
