// memo.go: cache-key completeness (used by C04, C06, C13, C15).
//
// A memo is a map (captured by a closure, or package-level, or a package-level
// sync.Map) that is consulted under a key and, on a miss, filled with a value
// computed in the same function. The rule: every varying input of the stored
// value must be present *verbatim* in the key (reachable from the key through
// injective operations only: interface/struct packing, type changes). An
// input that is missing, or present only through a lossy transformation
// (arithmetic, rounding, a derived string), makes two different computations
// share one cache slot.
package main

import (
	"fmt"
	"go/token"
	"go/types"
	"sort"
	"strings"

	"golang.org/x/tools/go/ssa"
)

type sliceOpts struct {
	injective bool // follow only value-preserving operations
}

// canonAddr renders an address chain position-free: param:res.Values[t3].Unit
func canonAddr(v ssa.Value) string {
	switch x := v.(type) {
	case *ssa.FieldAddr:
		f, _ := fieldOfAddr(x)
		return canonAddr(x.X) + "." + f.Name()
	case *ssa.IndexAddr:
		return canonAddr(x.X) + "[" + canonVal(x.Index) + "]"
	case *ssa.Parameter:
		return "param:" + x.Name()
	case *ssa.FreeVar:
		return "free:" + x.Name()
	case *ssa.Global:
		return "global:" + x.Name()
	case *ssa.UnOp:
		if x.Op == token.MUL {
			return "*" + canonAddr(x.X)
		}
	case *ssa.Alloc:
		return "alloc:" + x.Name()
	case *ssa.Phi:
		return "phi:" + x.Name()
	}
	return canonVal(v)
}

func canonVal(v ssa.Value) string {
	switch x := v.(type) {
	case *ssa.Const:
		return x.String()
	case *ssa.Parameter:
		return "param:" + x.Name()
	case *ssa.FreeVar:
		return "free:" + x.Name()
	case *ssa.UnOp:
		if x.Op == token.MUL {
			return "*" + canonAddr(x.X)
		}
	case *ssa.Field:
		f, _ := fieldOfVal(x)
		return canonVal(x.X) + "." + f.Name()
	case *ssa.Extract:
		return canonVal(x.Tuple) + fmt.Sprintf("#%d", x.Index)
	case *ssa.Next:
		return "next:" + canonVal(x.Iter)
	case *ssa.Range:
		return "range:" + canonVal(x.X)
	}
	return v.Name()
}

// leavesOf computes the leaf inputs in the backward slice of v.
func leavesOf(fn *ssa.Function, v ssa.Value, o sliceOpts) map[string]bool {
	out := map[string]bool{}
	seen := map[ssa.Value]bool{}
	seenAlloc := map[*ssa.Alloc]bool{}
	var walk func(v ssa.Value)
	seenAllocPath := map[string]bool{}
	addrLeaf := func(a ssa.Value) {
		// local allocation: follow what was stored into it
		root := a
		suffix := ""
		for {
			switch x := root.(type) {
			case *ssa.FieldAddr:
				f, _ := fieldOfAddr(x)
				suffix = "." + f.Name() + suffix
				root = x.X
				continue
			case *ssa.IndexAddr:
				suffix = "[]" + suffix
				root = x.X
				continue
			}
			break
		}
		if al, ok := root.(*ssa.Alloc); ok {
			k := al.Name() + suffix
			if seenAllocPath[k] {
				return
			}
			seenAllocPath[k] = true
			seenAlloc[al] = true
			eachInstr(fn, func(_ *ssa.BasicBlock, in ssa.Instruction) {
				if st, ok := in.(*ssa.Store); ok {
					r := st.Addr
					for {
						switch x := r.(type) {
						case *ssa.FieldAddr:
							r = x.X
							continue
						case *ssa.IndexAddr:
							r = x.X
							continue
						}
						break
					}
					if r == al {
						// the whole object copied from non-local memory: the field read is that memory's field
						if st.Addr == al && suffix != "" && !strings.Contains(suffix, "[]") {
							if u, ok := st.Val.(*ssa.UnOp); ok && u.Op == token.MUL {
								if al2, _ := allocRootOfAddr(u.X); al2 == nil {
									if _, isAl := u.X.(*ssa.Alloc); !isAl {
										out[canonAddr(u.X)+suffix] = true
										return
									}
								}
							}
						}
						walk(st.Val)
					}
				}
			})
			return
		}
		out[canonAddr(a)] = true
	}
	walk = func(v ssa.Value) {
		if v == nil || seen[v] {
			return
		}
		seen[v] = true
		switch x := v.(type) {
		case *ssa.Const, *ssa.Function, *ssa.Builtin:
		case *ssa.Parameter:
			out["param:"+x.Name()] = true
		case *ssa.FreeVar:
			out["free:"+x.Name()] = true
		case *ssa.Global:
			out["global:"+x.Name()] = true
		case *ssa.Alloc:
			addrLeaf(x)
		case *ssa.UnOp:
			if x.Op == token.MUL {
				addrLeaf(x.X)
			} else if !o.injective {
				walk(x.X)
			}
		case *ssa.ChangeType:
			walk(x.X)
		case *ssa.MakeInterface:
			walk(x.X)
		case *ssa.ChangeInterface:
			walk(x.X)
		case *ssa.Convert:
			// string<->[]byte and same-kind conversions keep the information
			if !o.injective || convInjective(x) {
				walk(x.X)
			}
		case *ssa.Field:
			// a field of a struct loaded from non-local memory: the leaf is that field, not the whole struct
			if u, ok := x.X.(*ssa.UnOp); ok && u.Op == token.MUL {
				if al, _ := allocRootOfAddr(u.X); al == nil {
					if _, isAlloc := u.X.(*ssa.Alloc); !isAlloc {
						f, _ := fieldOfVal(x)
						out[canonAddr(u.X)+"."+f.Name()] = true
						return
					}
				}
			}
			walk(x.X)
		case *ssa.Extract:
			walk(x.Tuple)
		case *ssa.Phi:
			if o.injective {
				return
			}
			for _, e := range x.Edges {
				walk(e)
			}
			// control dependence: conditions deciding which edge is taken
			idom := x.Block().Idom()
			for _, p := range x.Block().Preds {
				for _, f := range factsAt(p) {
					if idom != nil && (f.If.Block() == idom || idom.Dominates(f.If.Block())) {
						walk(f.Cond)
					}
				}
			}
		case *ssa.BinOp:
			if !o.injective {
				walk(x.X)
				walk(x.Y)
			}
		case *ssa.Call:
			if o.injective {
				return
			}
			for _, a := range callArgs(&x.Call) {
				walk(a)
			}
			if !x.Call.IsInvoke() {
				if _, isFn := x.Call.Value.(*ssa.Function); !isFn {
					if _, isB := x.Call.Value.(*ssa.Builtin); !isB {
						walk(x.Call.Value)
					}
				}
			}
		case *ssa.Lookup:
			if !o.injective {
				walk(x.X)
				walk(x.Index)
			}
		case *ssa.Index:
			if !o.injective {
				walk(x.X)
				walk(x.Index)
			}
		case *ssa.IndexAddr, *ssa.FieldAddr:
			addrLeaf(x)
		case *ssa.Slice:
			walk(x.X)
		case *ssa.MakeClosure:
			for _, b := range x.Bindings {
				walk(b)
			}
		case *ssa.TypeAssert:
			walk(x.X)
		case *ssa.Next:
			if !o.injective {
				walk(x.Iter)
			}
		case *ssa.Range:
			walk(x.X)
		case *ssa.MakeSlice, *ssa.MakeMap, *ssa.MakeChan:
		}
	}
	walk(v)
	return out
}

func convInjective(x *ssa.Convert) bool {
	from, to := x.X.Type().Underlying(), x.Type().Underlying()
	isBytes := func(t types.Type) bool {
		s, ok := t.(*types.Slice)
		if !ok {
			return false
		}
		b, ok := s.Elem().Underlying().(*types.Basic)
		return ok && b.Kind() == types.Byte
	}
	if (isString(from) && isBytes(to)) || (isBytes(from) && isString(to)) || (isString(from) && isString(to)) {
		return true
	}
	fb, ok1 := from.(*types.Basic)
	tb, ok2 := to.(*types.Basic)
	if ok1 && ok2 && fb.Info()&types.IsInteger != 0 && tb.Info()&types.IsInteger != 0 {
		return true // widening/narrowing of ints is not always injective, but is never how a key loses a float or string input
	}
	return false
}

type memoSite struct {
	Fn     *ssa.Function
	Instr  ssa.Instruction
	Memo   string // canonical name of the memo object
	Key    ssa.Value
	Val    ssa.Value
	Kind   string      // closure-map, global-map, sync.Map
	Lookup *ssa.Lookup // the miss test that precedes the store (map memos)
}

// findMemoSites lists stores into memo maps in the given functions.
func findMemoSites(fns []*ssa.Function) []memoSite {
	var out []memoSite
	for _, fn := range fns {
		eachInstr(fn, func(_ *ssa.BasicBlock, in ssa.Instruction) {
			switch x := in.(type) {
			case *ssa.MapUpdate:
				m := x.Map
				kind := ""
				name := ""
				if la := loadAddr(m); la != nil {
					switch y := la.(type) {
					case *ssa.FreeVar:
						kind, name = "closure-map", fnName(fn)+":free:"+y.Name()
					case *ssa.Global:
						kind, name = "global-map", y.String()
					}
				}
				if fv, ok := m.(*ssa.FreeVar); ok {
					kind, name = "closure-map", fnName(fn)+":free:"+fv.Name()
				}
				if kind == "" {
					return
				}
				// memo pattern: a lookup of the same map with the same key precedes the store
				lk := priorLookup(fn, x, m, x.Key)
				if lk == nil {
					return
				}
				out = append(out, memoSite{fn, in, name, x.Key, x.Value, kind, lk})
			case *ssa.Call:
				co := calleeObj(&x.Call)
				if objIs(co, "sync", "Map", "Store") || objIs(co, "sync", "Map", "LoadOrStore") {
					recv := x.Call.Args[0]
					if g, ok := recv.(*ssa.Global); ok {
						out = append(out, memoSite{fn, in, g.String(), x.Call.Args[1], x.Call.Args[2], "sync.Map", nil})
					}
				}
			}
		})
	}
	return out
}

func priorLookup(fn *ssa.Function, st *ssa.MapUpdate, m, key ssa.Value) *ssa.Lookup {
	var found *ssa.Lookup
	eachInstr(fn, func(_ *ssa.BasicBlock, in ssa.Instruction) {
		if lk, ok := in.(*ssa.Lookup); ok {
			if (lk.X == m || sameValue(lk.X, m)) && (lk.Index == key || sameValue(lk.Index, key) || canonVal(lk.Index) == canonVal(key) || sameLiteral(lk.Index, key)) && instrDominates(lk, st) {
				found = lk
			}
		}
	})
	return found
}

// checkMemoSites applies the completeness rule to each site.
func checkMemoSites(c *Ctx, p *Prog, rule string, sites []memoSite, want func(memoSite) bool) int {
	n := 0
	idx := map[string]int{}
	for _, s := range sites {
		if want != nil && !want(s) {
			continue
		}
		n++
		inputs := leavesOf(s.Fn, s.Val, sliceOpts{})
		keyL := leavesOf(s.Fn, s.Key, sliceOpts{injective: true})
		// a stored decision: what is cached also depends on the branches taken between the miss and the store; of those
		// conditions' inputs, the ones read from this call's arguments vary from call to call and must be in the key
		if s.Lookup != nil {
			for _, f := range factsAt(s.Instr.Block()) {
				ib := f.If.Block()
				if ib != s.Lookup.Block() && !s.Lookup.Block().Dominates(ib) {
					continue
				}
				for in := range leavesOf(s.Fn, f.Cond, sliceOpts{}) {
					if strings.HasPrefix(in, "param:") || strings.HasPrefix(in, "*param:") {
						inputs[in] = true
					}
				}
			}
		}
		var missing []string
		for in := range inputs {
			if keyL[in] {
				continue
			}
			// fixed for the memo's lifetime: variables captured together with a closure memo; the memo itself
			if s.Kind == "closure-map" && strings.HasPrefix(in, "free:") {
				continue
			}
			if strings.HasPrefix(in, "*free:") && s.Kind == "closure-map" && !strings.Contains(in, ".") && !strings.Contains(in, "[") {
				continue
			}
			if strings.HasPrefix(in, "global:") || strings.HasPrefix(in, "*global:") {
				continue
			}
			missing = append(missing, in)
		}
		sort.Strings(missing)
		k := fmt.Sprintf("%s:memo %s", fnName(s.Fn), shortName(s.Memo))
		idx[k]++
		if idx[k] > 1 {
			k = fmt.Sprintf("%s#%d", k, idx[k])
		}
		site := p.pos(instrPos(s.Instr))
		var kl []string
		for x := range keyL {
			kl = append(kl, x)
		}
		sort.Strings(kl)
		if len(missing) == 0 {
			c.OK(rule, k, site, fmt.Sprintf("every input of the cached value is part of the key %v", kl))
		} else {
			c.Bad(rule, k, site, fmt.Sprintf("the cached value depends on %v which the key %v does not contain verbatim: different computations share one cache slot", missing, kl))
		}
	}
	return n
}

func shortName(s string) string {
	return strings.ReplaceAll(s, modPath+"/", "")
}

// sameLiteral: two composite-literal keys (term{q.Key, q.Lit} written twice) with pairwise the same field values.
func sameLiteral(a, b ssa.Value) bool {
	la, ok1 := a.(*ssa.UnOp)
	lb, ok2 := b.(*ssa.UnOp)
	if !ok1 || !ok2 || la.Op != token.MUL || lb.Op != token.MUL {
		return false
	}
	aa, ok1 := la.X.(*ssa.Alloc)
	ab, ok2 := lb.X.(*ssa.Alloc)
	if !ok1 || !ok2 || !types.Identical(aa.Type(), ab.Type()) {
		return false
	}
	fields := func(al *ssa.Alloc) map[*types.Var]ssa.Value {
		out := map[*types.Var]ssa.Value{}
		for _, r := range *al.Referrers() {
			if fa, ok := r.(*ssa.FieldAddr); ok {
				f, _ := fieldOfAddr(fa)
				for _, r2 := range *fa.Referrers() {
					if st, ok := r2.(*ssa.Store); ok && st.Addr == ssa.Value(fa) {
						out[f] = st.Val
					}
				}
			}
		}
		return out
	}
	fa, fb := fields(aa), fields(ab)
	if len(fa) == 0 || len(fa) != len(fb) {
		return false
	}
	for f, v := range fa {
		w, ok := fb[f]
		if !ok || !(v == w || sameValue(v, w) || canonVal(v) == canonVal(w)) {
			return false
		}
	}
	return true
}
