// perfcheck: repository-specific static checks for golang/perf.
//
// core.go: obligations, verdicts, evidence, known findings, replay files.
package main

import (
	"crypto/sha1"
	"encoding/json"
	"fmt"
	"go/token"
	"os"
	"path/filepath"
	"sort"
	"strings"
	"time"
)

const modPath = "golang.org/x/perf"

// Verdict of one obligation.
const (
	vOK        = "ok"
	vViolation = "violation"
	vUndecided = "undecided"
	vKnown     = "known-finding"
)

// An Ob is one obligation: a rule applied to one construct.
type Ob struct {
	Rule    string   `json:"rule"`             // e.g. C04/R1
	Key     string   `json:"key"`              // stable construct key (rule + resolved objects, never a position)
	Site    string   `json:"site,omitempty"`   // file:line (diagnostic only)
	Verdict string   `json:"verdict"`          // ok / violation / undecided / known-finding
	Detail  string   `json:"detail,omitempty"` // what was checked or what failed
	Path    []string `json:"path,omitempty"`   // CFG / call-graph path for path rules
}

// Ctx is the per-run context of one property check.
type Ctx struct {
	Prop     string
	Tier     string
	Seed     int64
	RepoDir  string
	VerifDir string
	HomeDir  string // where the checker's own sources and positive controls live

	start    time.Time
	obs      []Ob
	seen     map[string]bool
	loaded   map[string]bool // packages loaded
	funcs    map[string]bool // functions analysed
	notes    []string
	allow    []string
	rules    map[string]string // rule id -> one-line description
	configs  []string
	extra    map[string]any
	override *loadOpts // thorough tier: re-run under another build configuration
	ruleMap  map[string]string
}

func newCtx(prop, tier string) *Ctx {
	repo := os.Getenv("PERFCHECK_REPO")
	if repo == "" {
		repo = "/repo"
	}
	verif := os.Getenv("PERFCHECK_VERIF")
	if verif == "" {
		verif = "/verif"
	}
	home := os.Getenv("PERFCHECK_HOME")
	if home == "" {
		home = verif
	}
	return &Ctx{Prop: prop, Tier: tier, RepoDir: repo, VerifDir: verif, HomeDir: home, start: time.Now(),
		seen: map[string]bool{}, loaded: map[string]bool{}, funcs: map[string]bool{},
		rules: map[string]string{}, extra: map[string]any{}}
}

// Rule registers the description of a rule (printed in evidence).
func (c *Ctx) Rule(id, desc string) { c.rules[id] = desc }

// Under runs f with obligations of rule `from` recorded under rule `to`: a rule of one property reused, whole, as a
// rule of another property that depends on the same mechanism.
func (c *Ctx) Under(from, to string, f func()) {
	if c.ruleMap == nil {
		c.ruleMap = map[string]string{}
	}
	old, had := c.ruleMap[from]
	c.ruleMap[from] = to
	f()
	if had {
		c.ruleMap[from] = old
	} else {
		delete(c.ruleMap, from)
	}
}

func (c *Ctx) add(o Ob) {
	if to, ok := c.ruleMap[o.Rule]; ok {
		o.Rule = to
	}
	k := o.Rule + "|" + o.Key
	if c.seen[k] {
		// The same obligation reached twice (e.g. in two build configurations):
		// keep the worst verdict.
		for i := range c.obs {
			if c.obs[i].Rule == o.Rule && c.obs[i].Key == o.Key {
				if rank(o.Verdict) > rank(c.obs[i].Verdict) {
					c.obs[i] = o
				}
			}
		}
		return
	}
	c.seen[k] = true
	c.obs = append(c.obs, o)
}

func rank(v string) int {
	switch v {
	case vViolation:
		return 3
	case vUndecided:
		return 2
	case vKnown:
		return 1
	}
	return 0
}

func (c *Ctx) OK(rule, key, site, detail string) {
	c.add(Ob{Rule: rule, Key: key, Site: site, Verdict: vOK, Detail: detail})
}
func (c *Ctx) Bad(rule, key, site, detail string, path ...string) {
	c.add(Ob{Rule: rule, Key: key, Site: site, Verdict: vViolation, Detail: detail, Path: path})
}
func (c *Ctx) Undecided(rule, key, site, detail string) {
	c.add(Ob{Rule: rule, Key: key, Site: site, Verdict: vUndecided, Detail: detail})
}

// Check records ok or violation depending on cond.
func (c *Ctx) Check(cond bool, rule, key, site, okDetail, badDetail string) bool {
	if cond {
		c.OK(rule, key, site, okDetail)
	} else {
		c.Bad(rule, key, site, badDetail)
	}
	return cond
}

// Floor fails as undecided when a rule found fewer sites than its floor.
func (c *Ctx) Floor(rule string, what string, got, floor int) {
	key := "floor:" + what
	if got < floor {
		c.Undecided(rule, key, "", fmt.Sprintf("found %d %s, need at least %d: the anchor is no longer recognised", got, what, floor))
	} else {
		c.OK(rule, key, "", fmt.Sprintf("found %d %s (floor %d)", got, what, floor))
	}
}

func (c *Ctx) Note(format string, a ...any) { c.notes = append(c.notes, fmt.Sprintf(format, a...)) }
func (c *Ctx) Allow(rule, object, reason string) {
	c.allow = append(c.allow, fmt.Sprintf("%s: %s — %s", rule, object, reason))
}
func (c *Ctx) Func(name string) { c.funcs[name] = true }

// ---- known findings ----

type knownFinding struct {
	Kind string // open / fixed
	Prop string
	Rule string
	Key  string
	Text string
}

func (c *Ctx) loadKnown() []knownFinding {
	var out []knownFinding
	b, err := os.ReadFile(filepath.Join(c.HomeDir, "known_findings.txt"))
	if err != nil {
		return nil
	}
	for _, ln := range strings.Split(string(b), "\n") {
		ln = strings.TrimSpace(ln)
		if ln == "" || strings.HasPrefix(ln, "#") {
			continue
		}
		var kf knownFinding
		switch {
		case strings.HasPrefix(ln, "open:"):
			kf.Kind = "open"
			ln = strings.TrimSpace(ln[5:])
		case strings.HasPrefix(ln, "fixed:"):
			kf.Kind = "fixed"
			ln = strings.TrimSpace(ln[6:])
		default:
			continue
		}
		// fields: property=<id> rule=<rule> key=<key-without-spaces> <free text>
		rest := ln
		for {
			f, r, _ := strings.Cut(rest, " ")
			switch {
			case strings.HasPrefix(f, "property="):
				kf.Prop = f[9:]
			case strings.HasPrefix(f, "rule="):
				kf.Rule = f[5:]
			case strings.HasPrefix(f, "key="):
				kf.Key = f[4:]
			default:
				kf.Text = rest
				rest = ""
			}
			if rest == "" {
				break
			}
			rest = r
			if rest == "" {
				break
			}
		}
		out = append(out, kf)
	}
	return out
}

// ---- finishing: evidence, replay files, exit code ----

type replayFile struct {
	Property string   `json:"property"`
	Rule     string   `json:"rule"`
	Key      string   `json:"key"`
	Site     string   `json:"site"`
	Detail   string   `json:"detail"`
	Path     []string `json:"path,omitempty"`
	Expect   string   `json:"rule_description"`
	Replay   string   `json:"how_to_replay"`
}

func keyNoSpace(k string) string { return strings.ReplaceAll(k, " ", "_") }

func (c *Ctx) finish() int {
	known := c.loadKnown()
	// Downgrade listed open findings.
	for i := range c.obs {
		o := &c.obs[i]
		if o.Verdict != vViolation {
			continue
		}
		for _, kf := range known {
			if kf.Kind == "open" && kf.Prop == c.Prop && kf.Rule == o.Rule && kf.Key == keyNoSpace(o.Key) {
				o.Verdict = vKnown
			}
		}
	}
	sort.SliceStable(c.obs, func(i, j int) bool {
		if c.obs[i].Rule != c.obs[j].Rule {
			return ruleLess(c.obs[i].Rule, c.obs[j].Rule)
		}
		return c.obs[i].Key < c.obs[j].Key
	})
	nOK, nBad, nUnd, nKnown := 0, 0, 0, 0
	exit := 0
	for _, o := range c.obs {
		switch o.Verdict {
		case vOK:
			nOK++
		case vKnown:
			nKnown++
			fmt.Printf("KNOWN-FINDING: property=%s rule=%s key=%s %s (%s)\n", c.Prop, o.Rule, keyNoSpace(o.Key), o.Detail, o.Site)
		case vUndecided:
			nUnd++
			fmt.Printf("UNDECIDED property=%s rule=%s key=%s site=%s: %s\n", c.Prop, o.Rule, o.Key, o.Site, o.Detail)
			if exit == 0 {
				exit = 2
			}
		case vViolation:
			nBad++
			rp := c.writeReplay(o)
			fmt.Printf("  rule=%s key=%s site=%s: %s\n", o.Rule, o.Key, o.Site, o.Detail)
			for _, p := range o.Path {
				fmt.Printf("      %s\n", p)
			}
			fmt.Printf("VIOLATION property=%s replay=%s\n", c.Prop, rp)
			exit = 1
		}
	}
	c.writeEvidence(nOK, nBad, nUnd, nKnown)
	fmt.Printf("%s %s: %d obligations over %d rules: %d ok, %d violation, %d undecided, %d known-finding; %d packages, %d functions; %.1fs\n",
		c.Prop, c.Tier, len(c.obs), len(c.rules), nOK, nBad, nUnd, nKnown, len(c.loaded), len(c.funcs), time.Since(c.start).Seconds())
	return exit
}

func ruleLess(a, b string) bool {
	// C04/R10 after C04/R2
	pa, ra, _ := strings.Cut(a, "/R")
	pb, rb, _ := strings.Cut(b, "/R")
	if pa != pb {
		return pa < pb
	}
	var ia, ib int
	fmt.Sscanf(ra, "%d", &ia)
	fmt.Sscanf(rb, "%d", &ib)
	if ia != ib {
		return ia < ib
	}
	return a < b
}

func (c *Ctx) writeReplay(o Ob) string {
	h := sha1.Sum([]byte(o.Rule + "|" + o.Key))
	name := fmt.Sprintf("%s-%s-%x.json", c.Prop, strings.ReplaceAll(o.Rule, "/", "_"), h[:5])
	dir := filepath.Join(c.VerifDir, "replays")
	os.MkdirAll(dir, 0o755)
	p := filepath.Join(dir, name)
	rf := replayFile{Property: c.Prop, Rule: o.Rule, Key: o.Key, Site: o.Site, Detail: o.Detail, Path: o.Path,
		Expect: c.rules[o.Rule], Replay: fmt.Sprintf("%s/run replay %s", c.VerifDir, p)}
	b, _ := json.MarshalIndent(rf, "", " ")
	os.WriteFile(p, b, 0o644)
	return p
}

func (c *Ctx) writeEvidence(nOK, nBad, nUnd, nKnown int) {
	type ruleSum struct {
		Rule        string `json:"rule"`
		Description string `json:"description"`
		Obligations int    `json:"obligations"`
		OK          int    `json:"ok"`
	}
	var rs []ruleSum
	idx := map[string]int{}
	for _, o := range c.obs {
		i, ok := idx[o.Rule]
		if !ok {
			i = len(rs)
			idx[o.Rule] = i
			rs = append(rs, ruleSum{Rule: o.Rule, Description: c.rules[o.Rule]})
		}
		rs[i].Obligations++
		if o.Verdict == vOK {
			rs[i].OK++
		}
	}
	pk := keys(c.loaded)
	fn := keys(c.funcs)
	distinct := map[string]bool{}
	for _, o := range c.obs {
		if !strings.HasPrefix(o.Key, "floor:") {
			distinct[o.Rule+"|"+o.Key] = true
		}
	}
	samples := make([]any, 0, len(c.obs))
	for _, o := range c.obs {
		samples = append(samples, o)
	}
	cov := map[string]any{
		"explanation": "Static analysis of /repo's current source (go/packages + go/types + go/ssa; no code from /repo is executed). " +
			"Each obligation is one rule applied to one resolved construct; all obligations of the property's structural rules are listed under samples. " +
			"A passing run means every structural necessary condition stated in DESIGN.md for " + c.Prop + " is discharged on this tree; it does not establish the behavioural property as a whole.",
		"obligations":          len(c.obs),
		"discharged":           nOK,
		"evaluations":          len(c.obs),
		"distinct_nontrivial":  len(distinct),
		"rule":                 "one evaluation = one (rule, construct) obligation decided from the source; non-trivial = not a site-count floor; distinct by rule+construct key",
		"samples":              samples,
		"exhaustive":           false,
		"rules":                rs,
		"packages_loaded":      pk,
		"functions_analysed":   fn,
		"n_functions":          len(fn),
		"build_configs":        c.configs,
		"allow_list_consulted": c.allow,
		"notes":                c.notes,
		"undecided":            nUnd,
		"known_findings":       nKnown,
		"checker_cmd":          fmt.Sprintf("%s/run check %s --tier %s", c.VerifDir, c.Prop, c.Tier),
		"trusted_base":         []string{"go/types", "golang.org/x/tools/go/ssa v0.29.0", "golang.org/x/tools/go/packages", "the rule tables in /verif/checker"},
	}
	if wf := os.Getenv("PERFCHECK_WITNESS"); wf != "" {
		if b, err := os.ReadFile(wf); err == nil {
			var w []map[string]string
			if json.Unmarshal(b, &w) == nil {
				ok, missed, skipped, falseAlarm := 0, 0, 0, 0
				for _, x := range w {
					switch {
					case strings.HasPrefix(x["verdict"], "ok"):
						ok++
					case strings.HasPrefix(x["verdict"], "MISSED"):
						missed++
					case strings.HasPrefix(x["verdict"], "FALSE-ALARM"):
						falseAlarm++
					default:
						skipped++
					}
				}
				cov["self_test"] = map[string]any{
					"what":        "informational, not part of the verdict: stored witness edits (witness/<id>.tsv) and independently seeded mutations (seeded/<id>-*/patch.diff) applied one at a time to scratch copies of /repo's current working tree; each copy is checked with this property's rules",
					"as_expected": ok, "missed": missed, "false_alarms": falseAlarm, "skipped": skipped, "results": w,
				}
			}
		}
	}
	for k, v := range c.extra {
		cov[k] = v
	}
	ev := map[string]any{
		"property_id": c.Prop,
		"tier":        c.Tier,
		"seed":        c.Seed,
		"level":       "other",
		"coverage":    cov,
		"assumptions": []string{
			"the Go type checker and go/ssa builder represent the program faithfully",
			"rules decide structural necessary conditions only; see DESIGN.md section for " + c.Prop + " for what is not decided",
			"standard-library behaviour is taken from its documentation (reviewed effect tables in the checker)",
		},
		"wall_s":     time.Since(c.start).Seconds(),
		"violations": nBad,
	}
	dir := filepath.Join(c.VerifDir, "evidence")
	os.MkdirAll(dir, 0o755)
	b, _ := json.MarshalIndent(ev, "", " ")
	if err := os.WriteFile(filepath.Join(dir, c.Prop+".json"), b, 0o644); err != nil {
		fmt.Fprintln(os.Stderr, "cannot write evidence:", err)
	}
}

func keys(m map[string]bool) []string {
	out := make([]string, 0, len(m))
	for k := range m {
		out = append(out, k)
	}
	sort.Strings(out)
	return out
}

// posStr renders a position relative to the repo root.
func (c *Ctx) posStr(fset *token.FileSet, p token.Pos) string {
	if !p.IsValid() {
		return ""
	}
	ps := fset.Position(p)
	rel, err := filepath.Rel(c.RepoDir, ps.Filename)
	if err != nil || strings.HasPrefix(rel, "..") {
		rel = ps.Filename
	}
	return fmt.Sprintf("%s:%d", rel, ps.Line)
}
