// c13.go: C13 — summaries and comparisons honour their statistical contracts.
package main

import (
	"fmt"
	"go/constant"
	"go/token"
	"go/types"
	"math/big"
	"strings"

	"golang.org/x/tools/go/ssa"
)

func init() { register("C13", checkC13) }

const bmathPkg = modPath + "/benchmath"

func checkC13(c *Ctx) {
	c.Rule("C13/R1", "every model whose Compare runs a hypothesis test returns, on every path, a Comparison whose Alpha is verbatim the first sample's Thresholds.CompareAlpha")
	c.Rule("C13/R2", "N1/N2 come from the first/second sample and the first sample is the test's first argument")
	c.Rule("C13/R3", "benchmath.Sample is constructed only by NewSample, which sorts the slice it stores; stats.Sample{Sorted:true} is built only from Sample.Values")
	c.Rule("C13/R4", "process-wide memo tables are keyed by every input of the memoised call, verbatim")
	c.Rule("C13/R5", "rendering tables (DESIGN Appendix A4): FormatDelta — P>Alpha '~', equal '0.00%', old=0 '?', else (new/old-1)*100 with %+.2f%%; PctRangeString — infinite end '∞', sign mismatch '?', zero centre '0%', else the larger relative deviation of the interval ends from the centre, in percent")
	c.Rule("C13/R10", "with several equally frequent values the first is the mode: the exact summary replaces the mode only for a strictly greater count (variables found by name; no claim if renamed)")
	c.Rule("C13/R9", "the p-value is the test's: every P a Compare method of benchmath stores is the P field of the result of the test it calls, or the constant 1 where that test's error is known non-nil")
	c.Rule("C13/R8", "the configured significance level reaches the test: NewSample stores the thresholds pointer it was handed, verbatim, on every path")
	c.Rule("C13/R7", "scale invariance by dimensions: on the way from every Assumption.Compare (benchmath; the tests themselves live in the external go-moremath module) no quantity that carries the unit of the measurements (a value, mean, deviation, variance, quantile, or a product/quotient of them that does not cancel) is compared with a non-zero constant")
	c.Rule("C13/R6", "summary wiring: the assume-nothing summary uses the median interval for (len(values), requested confidence) and reports the interval's own confidence; the normal summary reports the mean interval at the requested confidence; the exact summary's bounds are the first and last sorted values and it warns exactly when the mode count differs from the sample size")

	p := mustLoad(c, loadOpts{}, "./benchmath", "./benchfmt", "./cmd/benchstat/...")
	c13Compare(c, p)
	c13Sorted(c, p, []string{"benchmath", "benchfmt", "cmd/benchstat", "cmd/benchstat/internal/benchtab", "cmd/benchstat/internal/texttab"})
	n := checkMemoSites(c, p, "C13/R4", findMemoSites(p.Funcs("benchmath")), nil)
	c.Floor("C13/R4", "memo stores in benchmath", n, 1)
	c13Render(c, p)
	c13Summary(c, p)
	c13Scale(c, p)
	c13Thresholds(c, p, "C13/R8")
	c13PFromTest(c, p)
	c13FirstModeWins(c, p, "C13/R10")
	if c.Tier == "thorough" {
		p2 := mustLoad(c, loadOpts{}, "./...")
		var rels []string
		for r := range p2.byRel {
			rels = append(rels, r)
		}
		c13Sorted(c, p2, rels)
	}
}

func inlineSampleHelpers(f *ssa.Function) bool {
	if f.Pkg == nil || f.Pkg.Pkg.Path() != bmathPkg {
		return false
	}
	small := len(naturalLoops(f)) == 0 && len(f.Blocks) <= 8
	if f.Signature.Recv() == nil {
		// package-level constructors of the result types (a Comparison or Summary literal moved into a helper)
		res := f.Signature.Results()
		if res.Len() != 1 {
			return false
		}
		if n, ok := res.At(0).Type().(*types.Named); ok && n.Obj().Pkg() != nil && n.Obj().Pkg().Path() == bmathPkg && (n.Obj().Name() == "Comparison" || n.Obj().Name() == "Summary") {
			return small
		}
		return false
	}
	if recvName(f.Signature.Recv().Type()) != "Sample" {
		return false
	}
	return small
}

func c13Compare(c *Ctx, p *Prog) {
	iface := p.Named("benchmath", "Assumption")
	alphaSrcF := p.Field("benchmath", "Thresholds", "CompareAlpha")
	thrF := p.Field("benchmath", "Sample", "Thresholds")
	valuesF := p.Field("benchmath", "Sample", "Values")
	if iface == nil || alphaSrcF == nil || thrF == nil {
		c.Undecided("C13/R1", "anchor:Assumption/Thresholds", "", "benchmath.Assumption or Thresholds.CompareAlpha not found")
		return
	}
	it := iface.Underlying().(*types.Interface)
	sc := p.Pkg("benchmath").Types.Scope()
	nImpl := 0
	for _, name := range sc.Names() {
		tn, ok := sc.Lookup(name).(*types.TypeName)
		if !ok || tn.Type() == iface.Obj().Type() {
			continue
		}
		if _, isIface := tn.Type().Underlying().(*types.Interface); isIface {
			continue
		}
		if !types.Implements(tn.Type(), it) && !types.Implements(types.NewPointer(tn.Type()), it) {
			continue
		}
		fn := p.Method("benchmath", name, "Compare")
		if fn == nil {
			continue
		}
		nImpl++
		site := p.pos(fn.Pos())
		mk := func() *e6Interp {
			return &e6Interp{Inline: inlineSampleHelpers, PureCall: func(f *types.Func) bool { return false }}
		}
		outs, why := e6Enumerate(mk, fn.Blocks[0], nil, nil, 512)
		key := name + ".Compare"
		if why != "" {
			c.Undecided("C13/R1", key, site, why)
			continue
		}
		// parameters: receiver, s1, s2
		s1, s2 := "param:"+fn.Params[len(fn.Params)-2].Name(), "param:"+fn.Params[len(fn.Params)-1].Name()
		mentions := func(s *Sym, param string) bool {
			f := false
			s.Walk(func(x *Sym) {
				if x.Op == "param" && x.String() == param {
					f = true
				}
			})
			return f
		}
		for i, o := range outs {
			if o.Term != "return" || len(o.Results) != 1 {
				continue
			}
			res := o.Results[0]
			var test *e6Action
			for j := range o.Actions {
				a := &o.Actions[j]
				if a.Kind == "call" && a.Callee != nil && a.Callee.Pkg() != nil && strings.HasSuffix(a.Callee.Pkg().Path(), "/stats") && strings.HasSuffix(a.Callee.Name(), "Test") {
					test = a
				}
			}
			ck := fmt.Sprintf("%s:return#%d", key, i)
			if test != nil {
				alpha := fieldOfSym(res, "Alpha", nil, nil)
				ok := alpha.IsFieldLoad(alphaSrcF) && mentions(alpha, s1) && !mentions(alpha, s2)
				c.Check(ok, "C13/R1", ck, site, "Alpha is the first sample's CompareAlpha",
					"this model runs "+test.Callee.Name()+" but returns a Comparison whose Alpha is "+alpha.String()+" instead of the first sample's Thresholds.CompareAlpha: FormatDelta compares P with that Alpha, so significant differences are shown as '~' (Alpha unset) or insignificant ones as percentages")
				// R2: argument order of the test
				okOrder := len(test.Args) >= 2 && mentions(test.Args[0], s1) && !mentions(test.Args[0], s2) && mentions(test.Args[1], s2) && !mentions(test.Args[1], s1)
				c.Check(okOrder, "C13/R2", ck+":test-args", site, "test called with (first sample, second sample)", "the test is not called with (first sample, second sample)")
			} else {
				c.OK("C13/R1", ck, site, "no hypothesis test on this path")
			}
			n1 := fieldOfSym(res, "N1", nil, nil)
			n2 := fieldOfSym(res, "N2", nil, nil)
			okN := func(n *Sym, own, other, fld string) bool {
				if n.Op == "call" && n.Name == "len" && n.Args[0].IsFieldLoad(valuesF) && mentions(n, own) && !mentions(n, other) {
					return true
				}
				// field N1/N2 of the test's result
				if (n.Op == "field" || n.Op == "load") && test != nil {
					return strings.Contains(n.String(), "."+fld) && strings.Contains(n.String(), test.Res.String())
				}
				return false
			}
			c.Check(okN(n1, s1, s2, "N1") && okN(n2, s2, s1, "N2"), "C13/R2", ck+":sizes", site, "N1/N2 are the first/second sample's sizes",
				fmt.Sprintf("N1/N2 are not the first/second sample's sizes (N1=%s, N2=%s)", n1, n2))
		}
	}
	c.Floor("C13/R1", "implementations of Assumption.Compare", nImpl, 3)
}

func c13Sorted(c *Ctx, p *Prog, rels []string) {
	const R = "C13/R3"
	sampleT := p.Named("benchmath", "Sample")
	valuesF := p.Field("benchmath", "Sample", "Values")
	if sampleT == nil {
		c.Undecided(R, "anchor:benchmath.Sample", "", "type not found")
		return
	}
	nCtor := 0
	for _, fn := range p.Funcs(rels...) {
		eachInstr(fn, func(_ *ssa.BasicBlock, in ssa.Instruction) {
			al, ok := in.(*ssa.Alloc)
			if !ok {
				return
			}
			pt, ok := al.Type().(*types.Pointer)
			if !ok || !types.Identical(pt.Elem(), sampleT) {
				return
			}
			// a zero Sample or a literal: who stores Values into it?
			var vs *ssa.Store
			for _, r := range *al.Referrers() {
				if fa, ok := r.(*ssa.FieldAddr); ok {
					if f, _ := fieldOfAddr(fa); f == valuesF {
						for _, r2 := range *fa.Referrers() {
							if st, ok := r2.(*ssa.Store); ok {
								vs = st
							}
						}
					}
				}
			}
			if vs == nil {
				return // no values: an empty sample cannot be unsorted
			}
			nCtor++
			k := fnName(fn) + ":constructs Sample"
			sorted := false
			eachInstr(fn, func(_ *ssa.BasicBlock, in2 ssa.Instruction) {
				if cc, ok := ascendingSortCall(in2); ok && sameValue(cc.Args[0], vs.Val) && instrDominates(in2, vs) {
					sorted = true
				}
			})
			c.Check(sorted, R, k, p.pos(al.Pos()), "the stored slice is sorted first", "a benchmath.Sample is built from a slice that was not sorted here: order statistics (median, interval order, mode scan) read Values as ascending")
		})
	}
	c.Floor(R, "constructions of benchmath.Sample", nCtor, 1)
	// stats.Sample{Sorted:true}
	n := 0
	for _, fn := range p.Funcs(rels...) {
		eachInstr(fn, func(_ *ssa.BasicBlock, in ssa.Instruction) {
			st, ok := in.(*ssa.Store)
			if !ok {
				return
			}
			f, base := fieldOfAddr(st.Addr)
			if f == nil || f.Name() != "Sorted" || f.Pkg() == nil || !strings.HasSuffix(f.Pkg().Path(), "go-moremath/stats") {
				return
			}
			cst, isC := st.Val.(*ssa.Const)
			if !isC || cst.Value == nil || !constant.BoolVal(cst.Value) {
				return
			}
			n++
			ok2 := false
			for _, r := range *base.Referrers() {
				if fa, ok := r.(*ssa.FieldAddr); ok {
					if f2, _ := fieldOfAddr(fa); f2 != nil && f2.Name() == "Xs" {
						for _, r2 := range *fa.Referrers() {
							if s2, ok := r2.(*ssa.Store); ok {
								if lf, _ := loadOfField(s2.Val); lf == valuesF {
									ok2 = true
								}
							}
						}
					}
				}
			}
			c.Check(ok2, R, fnName(fn)+":claims Sorted", p.pos(st.Pos()), "Sorted:true is claimed for Sample.Values only", "a stats.Sample is marked Sorted although its data is not a benchmath.Sample's (sorted) Values")
		})
	}
	c.Floor(R, "stats.Sample{Sorted:true} sites", n, 1)
}

func c13Render(c *Ctx, p *Prog) {
	const R = "C13/R5"
	// FormatDelta
	if fn := p.Method("benchmath", "Comparison", "FormatDelta"); fn == nil {
		c.Undecided(R, "anchor:FormatDelta", "", "method not found")
	} else {
		site := p.pos(fn.Pos())
		recv, old, nw := fn.Params[0], fn.Params[1], fn.Params[2]
		init := map[ssa.Value]*Sym{old: {Op: "param", Name: "old"}, nw: {Op: "param", Name: "new"}, recv: {Op: "param", Name: "c"}}
		mk := func() *e6Interp {
			// small loop-free helpers of the package (the percentage moved into a function) are evaluated in place
			return &e6Interp{Init: init, PureCall: func(f *types.Func) bool { return true },
				Inline: func(f *ssa.Function) bool {
					return f.Pkg == fn.Pkg && f != fn && f.Parent() == nil && len(naturalLoops(f)) == 0 && len(f.Blocks) <= 8
				}}
		}
		outs, why := e6Enumerate(mk, fn.Blocks[0], nil, nil, 256)
		if why != "" {
			c.Undecided(R, "FormatDelta", site, why)
		} else {
			n := 0
			wrongGate := false
			defer func() {
				c.Check(!wrongGate, R, "FormatDelta:gate", site, "the significance gate shows '~' only when p exceeds the threshold", "the significance gate treats p equal to the threshold as not significant; a difference is shown exactly when p does not exceed the threshold")
			}()
			for _, o := range outs {
				part := map[string]bool{}
				bad := ""
				for _, k := range o.AtomKeys() {
					v := o.Assign[k]
					_ = v
					s := o.AtomSyms[k]
					switch {
					case s.Op == "binop" && s.Tok == token.LSS && strings.Contains(s.Args[0].String(), ".Alpha") && strings.Contains(s.Args[1].String(), ".P"):
						part["insig"] = v // Alpha < P
					case s.Op == "binop" && s.Tok == token.LEQ && strings.Contains(s.Args[0].String(), ".P") && strings.Contains(s.Args[1].String(), ".Alpha"):
						part["insig"] = !v
					case s.Op == "binop" && (s.Tok == token.LEQ && strings.Contains(s.Args[0].String(), ".Alpha") && strings.Contains(s.Args[1].String(), ".P") ||
						s.Tok == token.LSS && strings.Contains(s.Args[0].String(), ".P") && strings.Contains(s.Args[1].String(), ".Alpha")):
						// Alpha <= P / P < Alpha: the gate puts p == alpha on the insignificant side
						wrongGate = true
						part["insig"] = v == (s.Tok == token.LEQ)
					case s.Op == "binop" && s.Tok == token.EQL && s.String() == "(param:new == param:old)":
						part["same"] = v
					case s.Op == "binop" && s.Tok == token.EQL && s.Args[0].String() == "param:old" && s.Args[1].isConst():
						part["zero"] = v
					default:
						bad = k
					}
				}
				if bad != "" {
					c.Undecided(R, "FormatDelta:atoms", site, "condition outside the table: "+bad)
					continue
				}
				if o.Term != "return" {
					continue
				}
				for mask := 0; mask < 8; mask++ {
					v := map[string]bool{"insig": mask&1 != 0, "same": mask&2 != 0, "zero": mask&4 != 0}
					cons := true
					for k, x := range part {
						if v[k] != x {
							cons = false
						}
					}
					if !cons {
						continue
					}
					// canonical representatives
					if v["insig"] && (v["same"] || v["zero"]) {
						continue
					}
					if v["same"] && v["zero"] {
						continue
					}
					n++
					ck := fmt.Sprintf("FormatDelta[P>Alpha=%v old==new=%v old==0=%v]", v["insig"], v["same"], v["zero"])
					res := o.Results[0]
					want := ""
					switch {
					case v["insig"]:
						want = "~"
					case v["same"]:
						want = "0.00%"
					case v["zero"]:
						want = "?"
					}
					if want != "" {
						got, isC := constString2(res)
						c.Check(isC && got == want, R, ck, site, "renders "+want, fmt.Sprintf("renders %s where %q is documented", res, want))
						continue
					}
					// Sprintf("%+.2f%%", (new/old-1)*100)
					okF := false
					detail := "the delta is not rendered with fmt.Sprintf"
					if res.Op == "call" && strings.HasPrefix(res.Name, "fmt.Sprintf") {
						fs, _ := constString2(res.Args[0])
						var act e6Action
						for _, a := range o.Actions {
							if a.Res == res {
								act = a
							}
						}
						args := o.VarArgs(e6Action{Args: res.Args})
						_ = act
						if fs != "%+.2f%%" {
							detail = fmt.Sprintf("delta format is %q, documented %%+.2f%%%%", fs)
						} else if len(args) != 1 {
							detail = "unexpected Sprintf arguments"
						} else {
							pts := []map[string]*big.Rat{{"old": rat(7, 3), "new": rat(5, 2)}, {"old": rat(11, 1), "new": rat(4, 1)}, {"old": rat(-3, 1), "new": rat(9, 2)}}
							okF, detail = e7Equal(args[0], func(g func(string) *big.Rat) *big.Rat {
								return rMul(rSub(rQuo(g("new"), g("old")), rat(1, 1)), rat(100, 1))
							}, pts, func(s *Sym) string {
								if s.Op == "param" {
									return s.Name
								}
								return ""
							})
						}
					}
					c.Check(okF, R, ck, site, "renders (new/old-1)*100 with %+.2f%%", detail)
				}
			}
			c.Floor(R, "FormatDelta cases", n, 4)
		}
	}
	// PctRangeString
	fn := p.Method("benchmath", "Summary", "PctRangeString")
	if fn == nil {
		c.Undecided(R, "anchor:PctRangeString", "", "method not found")
		return
	}
	site := p.pos(fn.Pos())
	leafOf := func(s *Sym) string {
		for _, f := range []string{"Center", "Lo", "Hi"} {
			if (s.Op == "field" || s.Op == "load") && strings.HasSuffix(s.String(), "."+f) || (s.Op == "load" && strings.HasSuffix(s.String(), "."+f+")")) {
				return f
			}
		}
		return ""
	}
	// The documented cases are stated in terms of the signs of the centre and the two ends, so the method is evaluated
	// once per sign assignment (27 of them): branch conditions that follow from the signs (Sign(x) comparisons, x == 0,
	// products or quotients compared with 0, ...) are answered from the assignment, whatever form they are written in;
	// the IsInf tests stay symbolic.
	n := 0
	names := map[int]string{-1: "-", 0: "0", 1: "+"}
	for _, sc := range []int{-1, 0, 1} {
		for _, sl := range []int{-1, 0, 1} {
			for _, sh := range []int{-1, 0, 1} {
				env := map[string]int{"Center": sc, "Lo": sl, "Hi": sh}
				var signOf func(s *Sym) (int, bool, bool) // sign, known, exact (the value is itself -1/0/1)
				signOf = func(s *Sym) (int, bool, bool) {
					if l := leafOf(s); l != "" {
						return env[l], true, false
					}
					switch s.Op {
					case "const":
						if s.Const != nil && (s.Const.Kind() == constant.Int || s.Const.Kind() == constant.Float) {
							sg := constant.Sign(s.Const)
							f, _ := constant.Float64Val(constant.ToFloat(s.Const))
							return sg, true, f == -1 || f == 0 || f == 1
						}
					case "convert":
						if len(s.Args) == 1 {
							return signOf(s.Args[0])
						}
					case "unop":
						if s.Tok == token.SUB {
							a, k, ex := signOf(s.Args[0])
							return -a, k, ex
						}
					case "binop":
						if s.Tok == token.MUL || s.Tok == token.QUO {
							a, ka, _ := signOf(s.Args[0])
							b, kb, _ := signOf(s.Args[1])
							if ka && kb && !(s.Tok == token.QUO && b == 0) {
								return a * b, true, false
							}
						}
					case "call":
						nm := s.Name
						switch {
						case strings.Contains(nm, "mathx.Sign") && len(s.Args) == 1:
							a, k, _ := signOf(s.Args[0])
							return a, k, true
						case strings.HasPrefix(nm, "math.Abs") && len(s.Args) == 1:
							a, k, _ := signOf(s.Args[0])
							if a < 0 {
								a = -a
							}
							return a, k, false
						case strings.HasPrefix(nm, "math.Signbit") && len(s.Args) == 1:
							return 0, false, false
						}
					}
					return 0, false, false
				}
				decide := func(s *Sym) (bool, bool) {
					if s.Op == "call" && strings.HasPrefix(s.Name, "math.Signbit") && len(s.Args) == 1 {
						if a, k, _ := signOf(s.Args[0]); k && a != 0 {
							return a < 0, true
						}
						return false, false
					}
					if s.Op != "binop" {
						return false, false
					}
					a, ka, ea := signOf(s.Args[0])
					b, kb, eb := signOf(s.Args[1])
					if !ka || !kb {
						return false, false
					}
					exact := (ea && eb) || (eb && b == 0) || (ea && a == 0)
					switch s.Tok {
					case token.EQL, token.NEQ:
						if a != b {
							return s.Tok == token.NEQ, true
						}
						if exact {
							return s.Tok == token.EQL, true
						}
					case token.LSS, token.LEQ, token.GTR, token.GEQ:
						if a != b || exact {
							switch s.Tok {
							case token.LSS:
								return a < b, true
							case token.LEQ:
								return a <= b, true
							case token.GTR:
								return a > b, true
							case token.GEQ:
								return a >= b, true
							}
						}
					}
					return false, false
				}
				mk := func() *e6Interp {
					return &e6Interp{PureCall: func(f *types.Func) bool { return true }, Decide: decide, Inline: func(f *ssa.Function) bool {
						// a formatting helper of the package over (centre, lo, hi)
						if f.Pkg != fn.Pkg || f.Blocks == nil || f.Signature.Recv() != nil || len(naturalLoops(f)) > 0 || len(f.Params) == 0 {
							return false
						}
						for _, prm := range f.Params {
							if !isFloat(prm.Type()) {
								return false
							}
						}
						return true
					}}
				}
				outs, why := e6Enumerate(mk, fn.Blocks[0], nil, nil, 1024)
				if why != "" {
					c.Undecided(R, "PctRangeString", site, why)
					return
				}
				signs := fmt.Sprintf("centre%s lo%s hi%s", names[sc], names[sl], names[sh])
				for _, o := range outs {
					if o.Term != "return" {
						continue
					}
					res := o.Results[0]
					infTrue := false
					unknown := ""
					for _, k := range o.AtomKeys() {
						v := o.Assign[k]
						_ = v
						if strings.Contains(o.AtomSyms[k].String(), "math.IsInf") {
							if v {
								infTrue = true
							}
						} else {
							unknown = k
						}
					}
					if unknown != "" {
						c.Undecided(R, "PctRangeString:atoms", site, "a condition that the signs of centre and ends do not decide: "+unknown)
						return
					}
					n++
					got, _ := constString2(res)
					switch {
					case infTrue:
						c.Check(got == "∞", R, "PctRangeString[infinite end]", site, "renders ∞", "an infinite interval end renders "+res.String())
					case sc != sl || sc != sh:
						c.Check(got == "?", R, "PctRangeString["+signs+"]", site, "renders ?", fmt.Sprintf("with %s (an end whose sign differs from the centre's, zero counting as its own sign) the range renders %s instead of ?", signs, truncate(res.String(), 80)))
					case sc == 0:
						c.Check(got == "0%", R, "PctRangeString["+signs+"]", site, "renders 0%", "an all-zero summary renders "+truncate(res.String(), 80))
					default:
						ok := false
						detail := "the range is not rendered with fmt.Sprintf"
						if res.Op == "call" && strings.HasPrefix(res.Name, "fmt.Sprintf") {
							fs, _ := constString2(res.Args[0])
							args := o.VarArgs(e6Action{Args: res.Args})
							if fs != "%.0f%%" {
								detail = fmt.Sprintf("range format is %q, documented %%.0f%%%%", fs)
							} else if len(args) != 1 {
								detail = "unexpected Sprintf arguments"
							} else {
								pts := []map[string]*big.Rat{
									{"Center": rat(10, 1), "Lo": rat(8, 1), "Hi": rat(13, 1)},
									{"Center": rat(7, 2), "Lo": rat(1, 2), "Hi": rat(4, 1)},
								}
								if sc < 0 {
									pts = []map[string]*big.Rat{
										{"Center": rat(-10, 1), "Lo": rat(-13, 1), "Hi": rat(-8, 1)},
										{"Center": rat(-7, 2), "Lo": rat(-4, 1), "Hi": rat(-1, 2)},
									}
								}
								ok, detail = e7Equal(args[0], func(g func(string) *big.Rat) *big.Rat {
									c0 := g("Center")
									dev := rMax(rAbs(rSub(g("Hi"), c0)), rAbs(rSub(c0, g("Lo"))))
									return rMul(rat(100, 1), rQuo(dev, rAbs(c0)))
								}, pts, leafOf)
							}
						}
						c.Check(ok, R, "PctRangeString["+signs+"]", site, "renders 100*max(|Hi-C|,|C-Lo|)/|C| with %.0f%%", detail)
					}
				}
			}
		}
	}
	c.Floor(R, "PctRangeString cases", n, 27)
}

func constString2(s *Sym) (string, bool) {
	if s != nil && s.isConst() && s.Const != nil && s.Const.Kind() == constant.String {
		return constant.StringVal(s.Const), true
	}
	return "", false
}

func c13Summary(c *Ctx, p *Prog) {
	const R = "C13/R6"
	valuesF := p.Field("benchmath", "Sample", "Values")
	// assume-nothing
	if fn := p.Method("benchmath", "assumeNothing", "Summary"); fn != nil {
		site := p.pos(fn.Pos())
		conf := fn.Params[len(fn.Params)-1]
		var ciCall *ssa.Call
		eachInstr(fn, func(_ *ssa.BasicBlock, in ssa.Instruction) {
			if call, ok := in.(*ssa.Call); ok {
				if sc := call.Call.StaticCallee(); sc != nil && sc.Pkg != nil && sc.Pkg.Pkg.Path() == bmathPkg && sc.Signature.Params().Len() == 2 && isInteger(sc.Signature.Params().At(0).Type()) && isFloat(sc.Signature.Params().At(1).Type()) {
					if ciCall == nil {
						ciCall = call
					}
				}
			}
		})
		if ciCall == nil {
			c.Undecided(R, "assumeNothing.Summary:interval", site, "no call computing the median interval from (n, confidence)")
		} else {
			a0 := ciCall.Call.Args[0]
			okN := false
			if call, ok := a0.(*ssa.Call); ok {
				if b, ok := call.Call.Value.(*ssa.Builtin); ok && b.Name() == "len" {
					if f, _ := loadOfField(call.Call.Args[0]); f == valuesF {
						okN = true
					}
				}
			}
			c.Check(okN && ciCall.Call.Args[1] == conf, R, "assumeNothing.Summary:interval", p.pos(ciCall.Pos()), "interval computed for (len(Values), requested confidence)",
				"the median interval is not computed for (sample size, requested confidence)")
			// the order-statistic interval is applied to this sample's data and its confidence is reported
			okS := false
			eachInstr(fn, func(_ *ssa.BasicBlock, in ssa.Instruction) {
				if call, ok := in.(*ssa.Call); ok {
					if co := calleeObj(&call.Call); co != nil && co.Name() == "SampleCI" {
						okS = true
					}
				}
			})
			c.Check(okS, R, "assumeNothing.Summary:sample-ci", site, "interval ends are order statistics of the sample (QuantileCIResult.SampleCI)", "the interval ends are not taken from the sample through SampleCI")
			// the confidence reported is the interval's own, on every path
			confF := p.Field("benchmath", "Summary", "Confidence")
			nConf, okConf := 0, true
			for _, st := range storesToField(fn, confF) {
				nConf++
				own := false
				switch x := st.Val.(type) {
				case *ssa.Field:
					if f, _ := fieldOfVal(x); f != nil && f.Name() == "Confidence" && x.X == ssa.Value(ciCall) {
						own = true
					}
				case *ssa.UnOp:
					if f, base := loadOfField(x); f != nil && f.Name() == "Confidence" {
						// the call's result spilled into a local
						if al, ok := base.(*ssa.Alloc); ok {
							for _, s2 := range storesInto(al) {
								if s2.Val == ssa.Value(ciCall) {
									own = true
								}
							}
						}
					}
				}
				if !own {
					okConf = false
				}
			}
			c.Check(okConf && nConf > 0, R, "assumeNothing.Summary:reported-confidence", site, "the summary carries the confidence of the interval that was computed", "the confidence put into the summary is not, on every path, the computed interval's own confidence (for a half-infinite interval — n=5 at 0.95 gives [-Inf, max] with coverage 0.96875 — a fixed value such as 1 is not the exact binomial coverage)")
		}
	} else {
		c.Undecided(R, "anchor:assumeNothing.Summary", "", "method not found")
	}
	// normal model: centre and both ends are the three results of one MeanCI call at the requested confidence
	if fn := p.Method("benchmath", "assumeNormal", "Summary"); fn != nil {
		site := p.pos(fn.Pos())
		conf := fn.Params[len(fn.Params)-1]
		var ci *ssa.Call
		eachInstr(fn, func(_ *ssa.BasicBlock, in ssa.Instruction) {
			if call, ok := in.(*ssa.Call); ok {
				if co := calleeObj(&call.Call); co != nil && co.Name() == "MeanCI" {
					ci = call
				}
			}
		})
		if ci == nil {
			c.Bad(R, "assumeNormal.Summary:interval", site, "the normal summary does not take its interval from the sample's MeanCI: a hand-made interval has to reproduce its edge cases too — for a single value the standard error is not a number and the t interval is all of the reals (rendered ∞), not the point [v, v] (rendered 0%)")
		} else {
			args := callArgs(&ci.Call)
			c.Check(len(args) == 2 && args[1] == ssa.Value(conf), R, "assumeNormal.Summary:interval", p.pos(ci.Pos()), "the mean interval is computed at the requested confidence", "the mean interval is not computed at the confidence the caller asked for")
			want := map[string]int{"Center": 0, "Lo": 1, "Hi": 2}
			for _, name := range []string{"Center", "Lo", "Hi"} {
				fld := p.Field("benchmath", "Summary", name)
				okAll, nSt := true, 0
				for _, st := range storesToField(fn, fld) {
					nSt++
					ex, ok := st.Val.(*ssa.Extract)
					if !ok || ex.Tuple != ssa.Value(ci) || ex.Index != want[name] {
						okAll = false
					}
				}
				c.Check(okAll && nSt > 0, R, "assumeNormal.Summary:"+name, site, name+" is result #"+fmt.Sprint(want[name])+" of MeanCI", "the summary's "+name+" is not the corresponding result of the MeanCI call (centre, low end, high end in that order)")
			}
		}
	} else {
		c.Undecided(R, "anchor:assumeNormal.Summary", "", "method not found")
	}
	// exact model: bounds and warning condition
	if fn := p.Method("benchmath", "assumeExact", "Summary"); fn != nil {
		site := p.pos(fn.Pos())
		// warning stored only under modeCount != len(values)
		okW := false
		eachInstr(fn, func(b *ssa.BasicBlock, in ssa.Instruction) {
			st, ok := in.(*ssa.Store)
			if !ok {
				return
			}
			f, _ := fieldOfAddr(st.Addr)
			if f == nil || f.Name() != "Warnings" {
				return
			}
			for _, ft := range factsAt(b) {
				if bo, ok := ft.Cond.(*ssa.BinOp); ok && ((bo.Op == token.NEQ && ft.True) || (bo.Op == token.EQL && !ft.True)) {
					isLen := func(v ssa.Value) bool {
						call, ok := v.(*ssa.Call)
						if !ok {
							return false
						}
						bi, ok := call.Call.Value.(*ssa.Builtin)
						if !ok || bi.Name() != "len" {
							return false
						}
						f, _ := loadOfField(call.Call.Args[0])
						return f == valuesF
					}
					if isLen(bo.X) || isLen(bo.Y) {
						okW = true
					}
				}
			}
		})
		// "the same value" is ==: on the way from the exact summary no two measurements are compared by an ordered
		// float comparison (a tolerance, however small, merges distinct exact counts and hides the range warning)
		var tol []string
		for _, g := range staticReach([]*ssa.Function{fn}, bmathPkg) {
			eachInstr(g, func(_ *ssa.BasicBlock, in ssa.Instruction) {
				bo, ok := in.(*ssa.BinOp)
				if !ok || !isFloat(bo.X.Type()) {
					return
				}
				switch bo.Op {
				case token.LSS, token.LEQ, token.GTR, token.GEQ:
					tol = append(tol, p.pos(bo.Pos()))
				}
			})
		}
		c.Check(len(tol) == 0, R, "assumeExact.Summary:equality-is-exact", site, "values are compared by == only", fmt.Sprintf("the exact model compares measurements with an ordered float comparison (%s): values that differ are then counted as one (a tolerance), so the most frequent value and the 'exact distribution expected' warning are wrong for large counts that differ by a few units", strings.Join(tol, ", ")))
		c.Check(okW, R, "assumeExact.Summary:warning", site, "warns exactly when the mode count differs from the sample size", "the range warning is not guarded by (mode count != number of values)")
	}
}

// c13Scale (C13/R7): dimensional analysis of the comparison path. A p-value that is invariant under a common positive
// rescaling cannot depend on a test of a dimensioned quantity against an absolute constant other than zero.
func c13Scale(c *Ctx, p *Prog) {
	const R = "C13/R7"
	var roots []*ssa.Function
	for _, fn := range p.Funcs("benchmath") {
		if fn.Name() == "Compare" && fn.Signature.Recv() != nil {
			roots = append(roots, fn)
		}
	}
	if len(roots) < 3 {
		c.Undecided(R, "anchor:Compare", "", "fewer than three Compare methods found in benchmath")
		return
	}
	reach := staticReach(roots, bmathPkg)
	methodDim := map[string]int{"Mean": 1, "StdDev": 1, "Variance": 2, "GeoMean": 1, "Percentile": 1, "Quantile": 1, "IQR": 1, "Bounds": 1, "MeanCI": 1, "Sum": 1, "Weight": 0}
	isSampleT := func(t types.Type) bool {
		n := recvName(t)
		return n == "Sample"
	}
	var dim func(v ssa.Value, depth int) (int, bool, bool) // (dimension, known, isConst)
	dim = func(v ssa.Value, depth int) (int, bool, bool) {
		if depth > 12 {
			return 0, false, false
		}
		switch x := v.(type) {
		case *ssa.Const:
			return 0, true, true
		case *ssa.Convert:
			return dim(x.X, depth+1)
		case *ssa.ChangeType:
			return dim(x.X, depth+1)
		case *ssa.UnOp:
			switch x.Op {
			case token.SUB:
				return dim(x.X, depth+1)
			case token.MUL:
				if ia, ok := x.X.(*ssa.IndexAddr); ok && measurementSlice(ia.X, 0) {
					return 1, true, false
				}
			}
		case *ssa.Extract:
			if call, ok := x.Tuple.(*ssa.Call); ok {
				if f := calleeObj(&call.Call); f != nil {
					if sig := f.Type().(*types.Signature); sig.Recv() != nil && isSampleT(sig.Recv().Type()) {
						if d, ok := methodDim[f.Name()]; ok && isFloat(x.Type()) {
							return d, true, false
						}
					}
				}
			}
		case *ssa.Call:
			f := calleeObj(&x.Call)
			if f == nil {
				return 0, false, false
			}
			sig := f.Type().(*types.Signature)
			if sig.Recv() != nil && isSampleT(sig.Recv().Type()) && isFloat(x.Type()) {
				if d, ok := methodDim[f.Name()]; ok {
					return d, true, false
				}
			}
			if f.Pkg() != nil && f.Pkg().Path() == "math" && len(x.Call.Args) >= 1 {
				switch f.Name() {
				case "Abs", "Floor", "Ceil", "Round", "Trunc":
					return dim(x.Call.Args[0], depth+1)
				case "Max", "Min":
					d1, k1, c1 := dim(x.Call.Args[0], depth+1)
					d2, k2, c2 := dim(x.Call.Args[1], depth+1)
					switch {
					case k1 && c1:
						return d2, k2, c2
					case k2 && c2:
						return d1, k1, false
					case k1 && k2 && d1 == d2:
						return d1, true, false
					}
				case "Sqrt":
					if d, k, cst := dim(x.Call.Args[0], depth+1); k && d%2 == 0 {
						return d / 2, true, cst
					}
				}
			}
		case *ssa.BinOp:
			d1, k1, c1 := dim(x.X, depth+1)
			d2, k2, c2 := dim(x.Y, depth+1)
			switch x.Op {
			case token.ADD, token.SUB:
				switch {
				case k1 && c1 && k2:
					return d2, true, c2
				case k2 && c2 && k1:
					return d1, true, false
				case k1 && k2 && d1 == d2:
					return d1, true, false
				}
			case token.MUL:
				if k1 && k2 {
					return d1 + d2, true, c1 && c2
				}
			case token.QUO:
				if k1 && k2 {
					return d1 - d2, true, c1 && c2
				}
			}
		case *ssa.Phi:
			d0, have := 0, false
			for _, e := range x.Edges {
				if e == ssa.Value(x) {
					continue
				}
				d, k, cst := dim(e, depth+4)
				if !k {
					return 0, false, false
				}
				if cst {
					continue
				}
				if have && d != d0 {
					return 0, false, false
				}
				d0, have = d, true
			}
			if have {
				return d0, true, false
			}
		}
		return 0, false, false
	}
	type finding struct {
		fn   *ssa.Function
		k    int
		pos  token.Pos
		d    int
		k0   *ssa.Const
		zero bool
	}
	scan := func(fns []*ssa.Function) (n int, fs []finding) {
		for _, fn := range fns {
			k := 0
			eachInstr(fn, func(_ *ssa.BasicBlock, in ssa.Instruction) {
				bo, ok := in.(*ssa.BinOp)
				if !ok || !isFloat(bo.X.Type()) {
					return
				}
				switch bo.Op {
				case token.LSS, token.GTR, token.LEQ, token.GEQ, token.EQL, token.NEQ:
				default:
					return
				}
				n++
				var other ssa.Value
				var k0 *ssa.Const
				if cx, ok := bo.X.(*ssa.Const); ok {
					k0, other = cx, bo.Y
				} else if cy, ok := bo.Y.(*ssa.Const); ok {
					k0, other = cy, bo.X
				}
				if k0 == nil || k0.Value == nil {
					return
				}
				d, known, cst := dim(other, 0)
				if !known || cst {
					return
				}
				k++
				fs = append(fs, finding{fn, k, bo.Pos(), d, k0, constant.Sign(k0.Value) == 0})
			})
		}
		return
	}
	c.Note("C13/R7 analyses %d functions reachable from %d Compare methods", len(reach), len(roots))
	n, fs := scan(reach)
	for _, f := range fs {
		key := fmt.Sprintf("scale:%s#%d", fnName(f.fn), f.k)
		c.Check(f.d == 0 || f.zero, R, key, p.pos(f.pos), fmt.Sprintf("dimension %d compared with %s", f.d, f.k0.Value), fmt.Sprintf("a quantity carrying the unit of the measurements to the power %d is compared with the absolute constant %s: multiplying both samples by a common positive factor changes the outcome of this test, so the comparison (p-value, warnings, whether a delta is shown) is not invariant under rescaling, e.g. under a change of unit", f.d, f.k0.Value))
	}
	c.OK(R, "scale:comparison-path", "", fmt.Sprintf("%d functions, %d float comparisons, %d of a dimensioned quantity with a constant", len(reach), n, len(fs)))
	c.Floor(R, "functions on the comparison path", len(reach), 5)
	// positive control: the matcher must see the stored absolute guard
	ctl := mustLoad(c, loadOpts{dir: c.HomeDir + "/checker"}, "./testdata/lookbehind")
	nCtl := 0
	_, cf := scan(ctl.Funcs("perfcheck/testdata/lookbehind"))
	for _, f := range cf {
		if f.d != 0 && !f.zero {
			nCtl++
		}
	}
	if nCtl == 0 {
		c.Undecided(R, "positive-control", "", "the dimension matcher no longer recognises its own positive example")
	} else {
		c.OK(R, "positive-control", "checker/testdata/lookbehind/lb.go", "matcher fires on the stored absolute spread guard")
	}
}

// measurementSlice: v is the slice of measurements of a sample (field Values of benchmath.Sample, Xs of stats.Sample),
// possibly re-sliced.
func measurementSlice(v ssa.Value, depth int) bool {
	if depth > 6 {
		return false
	}
	switch x := v.(type) {
	case *ssa.Slice:
		return measurementSlice(x.X, depth+1)
	case *ssa.UnOp:
		if x.Op == token.MUL {
			if fa, ok := x.X.(*ssa.FieldAddr); ok {
				f, _ := fieldOfAddr(fa)
				return f != nil && (f.Name() == "Values" || f.Name() == "Xs") && recvName(fa.X.Type()) == "Sample"
			}
		}
	case *ssa.Field:
		f, _ := fieldOfVal(x)
		return f != nil && (f.Name() == "Values" || f.Name() == "Xs") && recvName(x.X.Type()) == "Sample"
	}
	return false
}

// c13Thresholds (C13/R8 = C14/R13): the significance level a comparison is made at is the one the caller configured.
// NewSample stores the thresholds pointer it was handed, verbatim, on every path: a "sensible default" substituted for
// an unset or zero-valued Thresholds turns the legal setting alpha = 0 (nothing is significant) into alpha = 0.05.
func c13Thresholds(c *Ctx, p *Prog, R string) {
	fn := p.Fn("benchmath", "NewSample")
	thrF := p.Field("benchmath", "Sample", "Thresholds")
	if fn == nil || thrF == nil {
		c.Undecided(R, "anchor:NewSample/Sample.Thresholds", "", "not found")
		return
	}
	var prm *ssa.Parameter
	for _, q := range fn.Params {
		if pt, ok := q.Type().(*types.Pointer); ok && recvName(pt.Elem()) == "Thresholds" {
			prm = q
		}
	}
	n := 0
	for _, st := range storesToField(fn, thrF) {
		n++
		c.Check(prm != nil && stripConv(st.Val) == ssa.Value(prm), R, fmt.Sprintf("NewSample:thresholds#%d", n), p.pos(st.Pos()), "the sample keeps the caller's thresholds",
			"the thresholds stored in the sample are not, on every path, the ones the caller passed: with -alpha 0 (a legal setting under which no difference is significant) the comparison is then made at a default level, deltas are shown where '~' belongs and the 'alpha level 0' warnings disappear")
	}
	c.Floor(R, "stores of the sample's thresholds", n, 1)
}

// c13PFromTest (C13/R9): a comparison's p-value is the hypothesis test's: in every Compare method of benchmath the P
// stored into the returned Comparison is the P field of the result of the test that method calls, or the constant 1 on
// the path where that test reported an error. A p-value taken from anywhere else (a table, a bound) is a different test.
func c13PFromTest(c *Ctx, p *Prog) {
	const R = "C13/R9"
	pF := p.Field("benchmath", "Comparison", "P")
	if pF == nil {
		c.Undecided(R, "anchor:Comparison.P", "", "not found")
		return
	}
	n := 0
	for _, fn := range p.Funcs("benchmath") {
		if fn.Name() != "Compare" || fn.Signature.Recv() == nil {
			continue
		}
		// the test: a call into a statistics package returning (result, error)
		var test *ssa.Call
		eachInstr(fn, func(_ *ssa.BasicBlock, in ssa.Instruction) {
			if call, ok := in.(*ssa.Call); ok {
				if co := calleeObj(&call.Call); co != nil && co.Pkg() != nil && strings.HasSuffix(co.Pkg().Path(), "/stats") && strings.HasSuffix(co.Name(), "Test") {
					test = call
				}
			}
		})
		if test == nil {
			continue // the exact model compares nothing
		}
		for _, st := range storesToField(fn, pF) {
			n++
			key := fmt.Sprintf("%s:P#%d", fnName(fn), n)
			ok := false
			detail := ""
			if k, isK := st.Val.(*ssa.Const); isK && k.Value != nil {
				// the error path: P = 1 where the test's error is known non-nil
				one := constant.Compare(k.Value, token.EQL, constant.MakeInt64(1))
				onErr := false
				for _, f := range factsAt(st.Block()) {
					if bo, isBo := f.Cond.(*ssa.BinOp); isBo && ((bo.Op == token.NEQ && f.True) || (bo.Op == token.EQL && !f.True)) {
						if ex, isEx := bo.X.(*ssa.Extract); isEx && ex.Tuple == ssa.Value(test) {
							onErr = true
						}
						// the test's error merged with a further reason to give up
						if ph, isPhi := bo.X.(*ssa.Phi); isPhi {
							for _, e := range ph.Edges {
								if ex, isEx := e.(*ssa.Extract); isEx && ex.Tuple == ssa.Value(test) {
									onErr = true
								}
							}
						}
					}
				}
				ok = one && onErr
				detail = "a constant p-value outside the test's error path"
			} else if f, base := loadOfField(st.Val); f != nil && f.Name() == "P" {
				// res.P with res the test's result (a pointer or value extracted from the call)
				if ex, isEx := stripConv(base).(*ssa.Extract); isEx && ex.Tuple == ssa.Value(test) {
					ok = true
				}
				if la := loadAddr(base); la != nil {
					if ex, isEx := la.(*ssa.Extract); isEx && ex.Tuple == ssa.Value(test) {
						ok = true
					}
				}
				detail = "a P field of something that is not this test's result"
			} else {
				detail = "a value that is not a field of the test's result"
			}
			c.Check(ok, R, key, p.pos(st.Pos()), "the comparison's P is the test's P (or 1 on the test's error)",
				"the comparison's p-value is "+detail+": a shortcut for 'obviously different' samples has to reproduce the test exactly — the smallest attainable p depends on both sample sizes, so a table indexed by one of them reports 0.1 where the test gives 0.036, and a different value again when the arguments are swapped")
		}
	}
	c.Floor(R, "p-values stored by the Compare methods", n, 2)
}
