#!/bin/bash
# crossrun.sh: run every property's check against every seeded change (8 at a time) with a frozen checker binary and
# write seeded/RESULTS.tsv (id, rules that reported it: own property first).
V=/verif
cp $V/bin/perfcheck $V/bin/perfcheck.frozen
export PERFCHECK_FROZEN_BIN=$V/bin/perfcheck.frozen ALL=1
ls -d $V/seeded/C*-*/ | xargs -n1 basename | xargs -P 8 -I{} sh -c "$V/tools/seedtest.sh '^{}\$'" > /tmp/seedtest_cross.log 2>&1
python3 - <<'PY'
import re
out=[]
for l in open('/tmp/seedtest_cross.log'):
    parts=l.split()
    if not parts or not re.match(r'C\d\d-[a-z]\d$',parts[0]): continue
    sid=parts[0]; own=sid[:3]
    hits=[]
    for p in parts[1:]:
        m=re.match(r'(C\d\d):CAUGHT\[(.*)\]',p)
        if m:
            hits.append((m.group(1),[r for r in m.group(2).split(',') if r]))
        elif ':rc=' in p:
            hits.append((p.split(':')[0],[p.split(':')[0]+' undecided']))
    hits.sort(key=lambda h:(h[0]!=own,h[0]))
    out.append(sid+'\t'+('; '.join(', '.join(r) for _,r in hits) if hits else '—'))
out.sort()
open('/verif/seeded/RESULTS.tsv','w').write('\n'.join(out)+'\n')
print(len(out),'results')
PY
