#!/bin/bash
# determinism.sh [N]: run every quick check N times (default 8) on /repo and report any check whose obligation list
# (rule, key, verdict) differs between runs. The checker iterates Go maps in many places; a verdict must never depend on it.
V=/verif; cd $V
N=${1:-8}
./run build >/dev/null 2>&1 || exit 2
cp bin/perfcheck bin/perfcheck.frozen
export PERFCHECK_FROZEN_BIN=$V/bin/perfcheck.frozen
T=$(mktemp -d /tmp/determinism.XXXXXX)
bad=0
for p in $(./run list); do
  for i in $(seq 1 $N); do
    mkdir -p $T/v$i
    PERFCHECK_VERIF=$T/v$i ./run check $p >/dev/null 2>&1
    jq -S '[.coverage.samples[] | {rule, key, verdict: (.verdict // .status // "")}] | sort_by(.rule, .key)' $T/v$i/evidence/$p.json > $T/$p.$i.txt 2>/dev/null
    jq -S '.coverage.rules' $T/v$i/evidence/$p.json >> $T/$p.$i.txt 2>/dev/null
  done
  for i in $(seq 2 $N); do
    if ! cmp -s $T/$p.1.txt $T/$p.$i.txt; then echo "NONDETERMINISTIC: $p (run 1 vs run $i)"; diff $T/$p.1.txt $T/$p.$i.txt | head -4 | cut -c1-200; bad=1; break; fi
  done
done
rm -rf $T
[ $bad = 0 ] && echo "deterministic over $N runs"
exit $bad
