#!/usr/bin/env python3
"""Regenerates /verif/MANIFEST.json from the table below (kept in one place so the manifest stays valid)."""
import json, os, sys
V = os.path.dirname(os.path.dirname(os.path.abspath(__file__)))

# id -> (design_ref, what the rules decide, what is NOT decided / trusted base, technique)
CLAIMED = {
 "C04": ("DESIGN.md §4 C04",
   "Structural necessary conditions decided from the source on every run: the reader never lets the measured value decide the unit (SSA guard/provenance rule on every store to Value.Unit), the fast-path and general tidy tables agree with each other and with the documented table (constants evaluated in the checker against a model of the unit grammar), rewriting and Binary classification only in numerator position with one separator set in both tokenizer loops, metadata keys built from tidied units, and the .unit filter judged against both units. A violated rule yields an input on which C04 fails.",
   "Does not decide the floating-point arithmetic of value*factor, the sync.Map cache's behaviour, or the tokenizer's handling of arbitrary Unicode beyond its separator set. Trusted: go/types, go/ssa, the checker's own model of the unit grammar.",
   "SSA guard/provenance rules + constant-table conformance + memo-key dataflow (go/ssa, go/types, go/constant)"),

 "C01": ("DESIGN.md §4 C01",
   "Writer-side structural conditions of the round trip, decided on every run: the per-key step of the configuration diff is extracted from the SSA as a complete decision table over (key present, value equal, model entry is file, result entry is file) and compared with the table required for a reader of the output to end up with exactly the result's file configuration (deletion on file->absent and file->internal, assignment on new/changed/internal->file, never an assignment for internal keys, model re-established); the diff trigger covers every kind of difference; a step that removes a key revisits its slot; measurements are printed as one (value,unit) family, the written pair exactly when one was recorded; floats use shortest round-trip verbs; unit metadata lines carry the unit as written.",
   "Does not decide that parsing arbitrary text and printing it is the identity, the float parser (C03), blank-line placement, or the equal-counts arithmetic argument the trigger relies on. Trusted: go/types, go/ssa, the table in DESIGN Appendix A1.",
   "decision-table extraction by abstract interpretation of SSA over a finite predicate domain + format/verb site rules"),
 "C07": ("DESIGN.md §4 C07",
   "Structural conditions decided on every run: no scanner recognises an escape by look-behind (with a stored positive control), a multi-step scan cursor is never compared with the end by ==, every call of the extractor constructor and of the match constructor is dominated by tests excluding the inputs they panic on (forward constant-set dataflow over the callers), the parser returns a nil node only with the error recorder's tokenizer, the quoting trigger covers the tokenizer's special characters and the operator sets equal the documented ones, order sentinels agree between parser and compiler and unknown orders return an error, space classification is applied to decoded runes, and misplaced .config/.unit are answered with an error.",
   "Does not decide totality of parsing on arbitrary text, error offsets, or the regexp delimiter scanner's corner cases. Trusted: go/types, go/ssa, the documented grammar transcribed in the checker.",
   "SSA site rules + forward constant-set dataflow (guard-then-use) + table agreement"),
 "C09": ("DESIGN.md §4 C09",
   "Structural conditions decided on every run: the comparison step is extracted from the SSA as a decision table over (field present in a / in b, strings equal, comparator zero/negative) and compared with the required table (missing = empty string and never skipped, comparator called with (a,b), sign decides, string fallback on comparator-equal, equal continues, equal tuples not less); observation ranks are recorded over the same flattened field list the comparison walks, for trimmed values as the empty string, only on first observation and as the map's size; the num comparator's full decision table equals DESIGN Appendix A3 and alpha is strings.Compare; both public entry points use the one comparison over the flattened fields; the flattened-field cache is only reset, never patched.",
   "Does not decide the fuzzy number parser, sort.Slice itself, or that ranks recorded during interning are the ranks in force when sorting. Trusted: go/types, go/ssa, tables A3 and the step table in the checker.",
   "decision-table extraction (abstract interpretation of SSA over a finite predicate domain) + producer/consumer site rules"),
 "C13": ("DESIGN.md §4 C13",
   "Structural conditions decided on every run: every implementation of Assumption.Compare that runs a hypothesis test returns on every path (paths enumerated by abstract interpretation, small Sample helpers inlined) a Comparison whose Alpha is verbatim the first sample's threshold, with N1/N2 and the test's argument order tied to the right samples; benchmath.Sample is only constructed from a slice sorted in the constructor and Sorted:true is only claimed for such values; process-wide memo tables are keyed verbatim by every input; FormatDelta's and PctRangeString's complete decision tables and arithmetic equal the documented rendering rules (formula identity decided over the rationals at sample points of both signs); the summary wiring of the three models.",
   "Does not decide coverage, exactness, symmetry or invariance of the p-values and intervals themselves (those are numerical properties of go-moremath and internal/stats), nor the mode scan's arithmetic. Trusted: go/types, go/ssa, the rendering tables in DESIGN Appendix A4 as corrected for negative centres.",
   "path enumeration by abstract interpretation of SSA + rational-function identity testing + memo-key dataflow + constructor site rules"),
 "C20": ("DESIGN.md §4 C20",
   "Structural conditions decided on every run, each a path or pairing rule over the SSA/CFG: after an upload is created no path reaches a return without the deferred abort being registered, the abort fires iff the upload variable is non-nil and the variable is cleared only on Commit's success edge, Commit is reachable only when NextPart returned exactly io.EOF; the file writer is paired with a deferred close that discards on error and propagates Close's error; no error-returning call on the upload path drops its error except reviewed clean-up calls, and non-nil errors of progress calls return; db.Upload runs SQL only through its own transaction; NewUpload reads and inserts the ID in one committed transaction and hands the records a separate later transaction; the client's and server's field names agree; every CloseWithError discards.",
   "Does not decide database isolation, uniqueness under truly concurrent NewUpload beyond the single-transaction shape, mime/multipart's behaviour on truncated bodies, or fs implementations outside the repository. Trusted: go/types, go/ssa, database/sql and mime/multipart documentation.",
   "typestate/pairing rules over SSA CFG paths + error-use dataflow + who-may-call rules"),
 "C18": ("DESIGN.md §4 C18",
   "Structural conditions decided on every run: every range over a map in the series builder, CSV writer and command is classified by the effects of its body (per-key writes, set insertion, collect-then-sort incl. map-of-slices, constant early exit) and anything order-sensitive is reported with the reason; every slice handed to median/percentile is sorted on all paths and the pre-exposure sort of cell values cannot be skipped by a stale flag; the only randomness is a source seeded from the two cells' value hashes; the compact date form's slices partition exactly the bytes its pattern admits and every successful normalisation is t.UTC().Format(numeric-offset layout); the duplicate policy's decision table (extracted from the SSA of one iteration) equals DESIGN Appendix A6; combined samples are fresh slices.",
   "Does not decide that samples contain exactly the matching measurements (projection semantics, C08), the bootstrap's numerical bounds, or total-order ties between distinct keys with equal string values. Trusted: go/types, go/ssa, the effect table for the standard library in effects.go.",
   "map-range effect classification over SSA + write summaries (call-graph fixpoint) + typestate (sorted) + decision-table extraction"),
 "C15": ("DESIGN.md §4 C15",
   "Structural conditions for schedule- and map-order independence, decided on every run over everything reachable from the benchstat command (repository packages plus the statistics library's source, dynamic calls resolved with a VTA call graph): every map range is classified by the effects of its body and order-sensitive ones are reported (the intern-table eviction is allow-listed with a checked side obligation); for every go statement Add precedes it, the body calls Done and releases the limiter on every path, and a Wait lies on every path to the return and to the next phase; every write inside goroutine bodies (field-level write summaries propagated over the call graph) targets an object owned by the iteration, no written field is read through a link to another iteration's object, and shared lazily-built state is only written under sync.Once/sync.Map; no ambient nondeterminism is reachable; cell values are consumed only by the sorting constructor; the key comparison's decision table is total.",
   "Does not decide byte identity of the output as such, the standard library's internals (covered by the reviewed effect table in effects.go), or aliasing through copied pointers beyond the type-based ownership rule. Trusted: go/types, go/ssa, x/tools VTA, the effect table.",
   "map-range effect classification + goroutine join/ownership analysis over SSA with field-level write summaries and a VTA call graph"),
 "C17": ("DESIGN.md §4 C17",
   "Structural conditions decided on every run: Sort resolves to a stable sort; the outlier filter's fence is computed unconditionally from Percentile(0.25/0.75) of the raw values with the documented formulas (rational identity), a value is kept exactly when inside the fence, and min/max/mean come from the kept slice; the row construction's complete decision table (extracted by abstract interpretation from the SSA between the delta-test call and the row append) equals DESIGN Appendix A5, including the strict p<alpha gate, the delta formula, the improvement direction and the p/n note with retained sizes; zero means never enter the geomean; lists grow only through the append-if-absent helper; map ranges are order-independent and metricOf's first-match pick can match at most one entry.",
   "Does not decide the R8 percentile values or the tests' p-values (C11/C12), nor idempotence of Tables() across repeated calls (observed: RValues accumulates; outside the property's quantifier). Trusted: go/types, go/ssa, table A5.",
   "decision-table extraction + rational-function identity testing + site rules + map-range classification"),
 "C19": ("DESIGN.md §4 C19",
   "Structural conditions decided on every run: the query-term merger's SSA is evaluated under a rank oracle for all 360 (operator pair x weak ordering of the endpoint strings) cases and its result denotes exactly the intersection of the two value sets (exhaustive over a domain that is finite because the code only compares the strings); SQL generation is evaluated for every (key kind, operation, empty value) case and its placeholders match the arguments in number, column, comparison and order; separator characters equal the operation table's keys; the front end's quoting trigger covers the word splitter's special bytes and escapes in the right order; the printer's collect conditions, sorted emission, formats and model update; the flush path clears the coalescing state; the two key:value recognisers use the same predicates; in the legacy reader every write to the label map follows a copy made in the same call (path-sensitive in boolean flags) and never touches server-added labels.",
   "Does not decide SQL semantics inside the database, the HTTP round trip, or upload listing order/limits. Trusted: go/types, go/ssa, the set semantics of DESIGN Appendix A7.",
   "abstract interpretation of SSA with a rank oracle (exhaustive finite enumeration) + table agreement + path-sensitive must-precede dataflow"),
 "C06": ("DESIGN.md §4 C06",
   "Structural conditions decided on every run: the NOT/AND/OR combiners' complete decision tables over operand kinds (whole-true, whole-false, mask) x accumulator state are extracted from the SSA and equal DESIGN Appendix A2, with mask methods identified by their bitwise operator; the bit layout (words per mask, word/bit position in set and Test, padding in All/Any) is evaluated exhaustively for every n up to 4W+2 and every word against the definition; Match writes nothing reachable from its Result argument except the private key index (field-level write summaries; Apply is the positive control); every Op constant and every filter node type is handled; Apply's compaction keeps exactly what Test says; fixed lists are AND-composed with the caller's filter; each grammar production builds the documented node; extractor results (views into the Result) are never retained.",
   "Does not decide key extraction values (C05), regexp semantics, or the equality `key's extracted value equals the literal` beyond the structure of the compiled closures. Trusted: go/types, go/ssa, table A2.",
   "decision-table extraction + bounded exhaustive evaluation of integer expressions + field-level effect summaries + exhaustiveness/site rules"),
 "C08": ("DESIGN.md §4 C08",
   "Structural conditions decided on every run: interning hashes, compares and stores one and the same trimmed row, stores a fresh copy, appends new nodes to the collision chain and returns an existing node on a match; the parser's exclusion sets are read inside the projection closures through the parser and the full-name extractor is built lazily under a nil guard (parse-order independence); each group joins the residue exactly when its have-flag is unset and the flag is set where the group is projected; the per-measurement projection rewrites only the .unit slot; field count, row buffer and flattened-field cache grow together; sub-name patterns end in '='; Key.Get returns the indexed value or the empty string for trimmed rows.",
   "Does not decide the 'if and only if' between keys and file configuration/name contents (needs value-level reasoning about byte strings), nor hash collisions' effect beyond the chain structure. Trusted: go/types, go/ssa.",
   "SSA value-identity and guard rules (site rules over resolved objects)"),
 "C14": ("DESIGN.md §4 C14",
   "Structural conditions decided on every run: the command adds a result only after Filter.Apply kept that same result, parses all projection flags with one parser before taking the residue, and hands ToTables the scanned Files' unit metadata; Builder.Add appends exactly one value per measurement, the measurement at the iteration's index, to the cell found or created under the iteration's table key and the result's (row, column) key (all paths of one iteration enumerated); the baseline is element 0 of the sorted columns, linked per row, and Compare/FormatDelta receive (baseline, cell) in that order in both renderers; the assumption is chosen from the table key's unit; the column summary's per-row decision table and ratio formula; key identity of interning (shared with C08); unit metadata survives from file to file.",
   "Does not decide that keys partition results correctly beyond interning identity (C08), nor the statistics themselves (C13, go-moremath). Trusted: go/types, go/ssa.",
   "path enumeration by abstract interpretation + dominance/guard rules + rational identity for the ratio"),
 "C02": ("DESIGN.md §4 C02",
   "Structural conditions decided on every run: Clone gives every reference-typed component of Result and of Config elements (enumerated from the struct types) a fresh allocation or nil, with pointer provenance followed through copied structs; scanner bytes and their sub-slices (taint propagated through the package's helpers to a fixpoint) reach persistent state only via element copies or string conversions, Result.Name being the one documented view; every change of Config's length on an existing Result maintains the key index and only the reviewed functions write it; Reset re-initialises every field of the reader (enumerated) except the two persistent tables, which are created only when absent; Files resets before scanning each file with the .file label and never replaces its reader; call-free scanning loops advance on every back edge; the key/value recogniser uses exactly the documented predicates and agrees with its legacy sibling.",
   "Does not decide the line classifier's exact language, numeric fields (C03), label disambiguation arithmetic, or absence of index panics. Trusted: go/types, go/ssa.",
   "type-driven exhaustiveness + forward taint over SSA + pairing/dominance rules"),
 "C03": ("DESIGN.md §4 C03 (thin)",
   "Thin structural part, decided on every run: parse errors of the iteration count and of each measurement end the line with a syntax error on every path before any value is recorded; the measurement fast path is exact by an interval argument (digits only, int64 accumulator, guard G with 10G+9 <= MaxInt64 evaluated in the checker, returns float64(accumulator), full parser on the whole input with bit size 64 otherwise); the iteration-count fast path's digit bound fits the word size (per build configuration, incl. GOARCH=386 in thorough); in the decimal-to-bits conversions every increase of the binary exponent is range-checked before the bits are assembled.",
   "Does NOT decide the property's core: that the 1400-line byte-slice port of strconv rounds correctly on every numeric text. The thorough tier attaches an informational per-function drift report against $GOROOT/src/strconv; it is not a verdict. Trusted: the language's correctly rounded int64->float64 conversion, go/types, go/ssa.",
   "guard/interval rules over SSA with constants evaluated in big-integer arithmetic + error-path rules"),
 "C05": ("DESIGN.md §4 C05 (thin)",
   "Thin structural part, decided on every run: the extractor constructor's dispatch (which key spelling leads to which extractor, found through a constant-set dataflow on the key) uses Base for .name, Full for .fullname, the sub-name lookup with prefix 'k=' and the GOMAXPROCS form exactly for /gomaxprocs, and the configuration lookup (empty when absent) otherwise; Base's two-case table (with '/': text before it, untouched; without: the shared splitter's prefix); Parts partitions the name; the -N splitter only splits at a '-' followed by at least one byte; the sub-name lookup scans in order and the first match decides, the -N form being limited to /gomaxprocs on the last part.",
   "Does NOT decide the behaviour on the irregular names the property is about beyond these structural conditions (value-level reasoning about byte strings: dash before slash inside segments, digit-only tails, empty base, multi-byte runes). Trusted: go/types, go/ssa.",
   "constant-set dataflow for the dispatch + decision-table extraction + guard rules"),
 "C10": ("DESIGN.md §4 C10 (thin: tables only)",
   "Thin structural part, decided on every run: the SI and IEC prefix ladders (list, start exponent, step, factor base) give the documented exponent maps with the empty prefix at 0; each rounding-boundary literal is 10^d - 5*10^(d-5) (decimal, exact rational) or the correctly rounded double with the right binary offset (hexadecimal, evaluated in the checker), reaches the threshold field that selects precision 3-d, through an inclusive comparison, coarse to fine; the sub-prefix ladder; the common scale's minimum takes magnitudes and skips zeros (iteration table); Scaler.Format is the single call AppendFloat(val/Factor,'f',Prec,64); the no-op scaler; ClassOf's token table is exactly {B, MB, bytes} in numerator position.",
   "Does NOT decide the property's actual content: that division followed by %.*f rounds on the same side of every threshold for every float (a numerical statement about all float64 values). Trusted: go/types, go/ssa, strconv in the checker for the hex constants.",
   "constant/table conformance evaluated in the checker (math/big, strconv) + decision-table extraction"),
 "C11": ("DESIGN.md §4 C11 (thin)",
   "Thin structural part, decided on every run: guards (empty samples, single rank group, zero variance) precede every result; each switch over the alternative covers its three constants; for every (alternative x exact/approximate branch) path, enumerated by abstract interpretation, the U statistic and the p-value expression equal the documented closed forms as rational functions with CDF/sqrt uninterpreted (U1, the three exact tails with the centre case and the cap at 1, mu, sigma^2 with the tie term, continuity correction, the three normal tails) and lie in [0,1] by interval evaluation; the tie term is the sum of t^3-t; the exact method is chosen exactly when both sizes are within the applicable limit; ties are flagged for any multi-member rank group; the legacy wrappers pass errors and P through.",
   "Does NOT decide exactness of the tied/untied U distributions (udist.go: recurrence, K=2 base case), symmetry of the two-sided value under swapping with ties, the half-step of the greater tail under ties, or floating-point cancellation (e.g. sigma being exactly 0 for all-equal input) — observed deviations O1 in DESIGN §5 are out of this family's reach. Trusted: go/types, go/ssa.",
   "path enumeration by abstract interpretation + rational-function identity with uninterpreted functions + interval evaluation"),
 "C12": ("DESIGN.md §4 C12 (thin)",
   "Thin structural part, decided on every run: each t-test has its documented error returns and produces a result only after its guards; for every success path (enumerated by abstract interpretation) the t statistic and degrees of freedom equal the textbook formulas as rational functions with sqrt uninterpreted (pooled, Welch, paired, one-sample); the three tails incl. two-sided = 2(1-F(|t|)); the t CDF's three cases (1/2 at 0, the incomplete-beta form, reflection); the normal CDF through erfc; the incomplete beta's log-domain prefactor, symmetry switch point and complement form; the R8 position and linear interpolation; Percentile reads values only when known sorted; nothing on the t distribution's path calls math.Gamma.",
   "Does NOT decide accuracy, monotonicity, range, inverse-CDF round trips, convergence of the continued fraction, or ulp-level agreement of descriptive statistics (all numerical); equality is over the reals, blind to cancellation and summation order. Trusted: go/types, go/ssa.",
   "path enumeration by abstract interpretation + rational-function identity with uninterpreted functions + who-may-call rule"),
 "C16": ("DESIGN.md §4 C16",
   "Structural conditions decided on every run: the layout adds, to every cell's text width, the column's entry of the same margin table the emitter pads with; the emitter pads each cell to the span's total width minus the margin and skips blank cells; widths are rune counts and byte lengths of strings appear only in emptiness tests; the header tree's per-key decision table (extend the current node iff the value equals the node's value, otherwise start a node at parent.Start+j of length 1) and the parent's key range for children; the text and CSV renderers read the same set of fields of the table data and format deltas through the same methods.",
   "Does not decide the width-distribution algorithm for spans over shrink columns, that no line ends in blanks in general, or numeric equality of scaled text and CSV values to the printed precision. The renderers' cursor arithmetic (DESIGN R1) is not implemented. Trusted: go/types, go/ssa.",
   "site rules over SSA (value provenance) + decision-table extraction + sibling field-set agreement"),
}

# techniques added while building (see DESIGN.md §0)
TECH_EXTRA = {
 "C01": "ownership/retention dataflow (what the Writer may keep from its argument) + sibling agreement with strconv by symbolic region tables (E8)",
 "C02": "per-element backing-array rule + path-condition table of the integer fast path + decision table of Files.init",
 "C03": "sibling agreement with $GOROOT strconv by symbolic region tables (E8) + saturation contract between ParseUint and ParseInt",
 "C04": "flow-sensitive judgement of the recorded Value per path (E6) + identity-return guard table",
 "C05": "cut-point region tables for the -N splitter",
 "C06": "cache-key completeness incl. branch conditions + concrete per-word evaluation of All/Any",
 "C07": "errors overwritten in loops (dataflow over loop-carried values) with positive control",
 "C08": "cache-key completeness for stored decisions (field-sensitive backward slices)",
 "C09": "per-field ownership of observation tables + shift-range analysis from literal tables (positive control)",
 "C11": "tails specified from the property (step by ties), integer-division semantics, guarded quotients, PMF index table",
 "C12": "re-entrancy of returned closures (effect summaries) + dominating length bounds before divisions by len-1",
 "C13": "range rendering decided per sign assignment (Decide oracle)",
 "C14": "conjunction of fixed lists with the caller's filter (shared with C06)",
 "C15": "spawning wrappers as virtual go sites + Builder.Add cell rule (shared with C14)",
 "C16": "refill-in-place aliasing between loop-carried slices (positive control) + bounded shrink marks",
 "C17": "percentile clamp table under a (k, N) oracle + direction predicate + strictness of Reverse",
 "C18": "non-zero divisor before division by a resampled statistic",
 "C19": "literal pieces of the assembled SQL: filter before LIMIT",
 "C20": "plain INSERT for upload rows + generalised abort guard (flag or nil)",
}

NOT_YET = "check not built yet in this round (planned in DESIGN.md); not claimed until its rules run clean on the unchanged tree"
NA = {}

props = [json.loads(l) for l in open(os.path.join(V, "properties.jsonl"))]
checks, na = [], []
for p in props:
    i = p["id"]
    if i in CLAIMED:
        ref, text, note, tech = CLAIMED[i]
        ref = ref + "; rules as built: DESIGN.md §0 and Appendix E"
        # the rule list as built, from the checker's own evidence (rewritten on every run)
        try:
            ev = json.load(open(os.path.join(V, "evidence", i + ".json")))
            rules = ev["coverage"]["rules"]
            text = text + " Rules as built (" + str(len(rules)) + "): " + "; ".join(r["rule"] + " " + r["description"][:140].rstrip() + ("…" if len(r["description"]) > 140 else "") for r in rules)
        except Exception:
            pass
        extra = TECH_EXTRA.get(i)
        if extra:
            tech = tech + " + " + extra
        checks.append({
            "property_id": i,
            "quick_cmd": f"./run check {i} --tier quick",
            "thorough_cmd": f"./run thorough {i}",
            "evidence_file": f"evidence/{i}.json",
            "replay_cmd_template": "./run replay {path}",
            "engine": "perfcheck",
            "level_claimed": {"category": "other", "text": text, "design_ref": ref},
            "level_note": note,
            "technique": tech,
        })
    else:
        na.append({"property_id": i, "reason": NA.get(i, NOT_YET)})

m = {
 "version": 1,
 "setup_cmd": "./run build",
 "hooks": {
   "guard": "verif",
   "enable": "none needed: the checks analyse /repo's source statically and add no instrumentation",
   "baseline_off_cmd": "cd /repo && GOFLAGS=-mod=mod GOPROXY=off GOSUMDB=off GOTOOLCHAIN=local go test -json -vet=off -count=1 -timeout 25m ./...",
   "source_commits": [],
   "add_only": True,
 },
 "engines": [{
   "name": "perfcheck",
   "path": "checker/",
   "serves_properties": sorted(CLAIMED),
   "kind_free_text": "repository-specific static analyser (go/packages + go/types + go/ssa + call graph): site rules, path/typestate rules, effect and map-order rules, decision-table extraction, formula conformance; never executes code from /repo",
 }],
 "checks": checks,
 "not_applicable": na,
 "notes": "All claims are at level 'other': each check decides structural necessary conditions of its property from /repo's current source (see DESIGN.md). Known findings: known_findings.txt.",
}
json.dump(m, open(os.path.join(V, "MANIFEST.json"), "w"), indent=1)
print("claimed:", sorted(CLAIMED), "not claimed:", [x["property_id"] for x in na])
