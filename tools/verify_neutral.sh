#!/bin/bash
# verify_neutral.sh <regex>: for every neutral/<id> matching, confirm in a scratch copy (outside /repo and /verif,
# removed afterwards) that the patch applies, the tree builds and the unedited suite passes with it.
export GOFLAGS=-mod=mod GOPROXY=off GOSUMDB=off GOTOOLCHAIN=local; unset GOWORK
V=/verif; re=${1:-.}
for d in $(ls -d $V/neutral/C*-*/ | xargs -n1 basename | grep -E "$re"); do
  S=$(mktemp -d /tmp/vn.XXXXXX); rsync -a --exclude .git /repo/ $S/
  if ! (cd $S && patch -p1 -s --no-backup-if-mismatch < $V/neutral/$d/patch.diff) >/dev/null 2>&1; then echo "$d APPLY-FAIL"; rm -rf $S; continue; fi
  if (cd $S && go build ./... && go test -vet=off -count=1 ./...) > /tmp/vn.$d.log 2>&1; then echo "$d suite-pass"; rm -f /tmp/vn.$d.log; else echo "$d SUITE-FAIL (see /tmp/vn.$d.log)"; fi
  rm -rf $S
done
