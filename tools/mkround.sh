#!/bin/bash
# mkround.sh <seed|neutral> <root>: prepare <root> (under /tmp) for one round of sub-agents: one detached worktree of
# /repo per property, out/<id>/PROPERTY.json, and the list of what earlier rounds already did. Remove the worktrees
# afterwards with: for d in <root>/C*; do git -C /repo worktree remove --force $d; done; rm -rf <root>
set -e
kind=$1; root=$2
[ -n "$root" ] || { echo "usage: mkround.sh <seed|neutral> <root>"; exit 2; }
mkdir -p $root/out
git -C /repo worktree prune
for i in $(seq -w 1 20); do
  id=C$i
  git -C /repo worktree add -q --detach $root/$id HEAD
  mkdir -p $root/out/$id
  python3 - $id $kind $root <<'PY'
import json,sys,glob,os
id,kind,root=sys.argv[1:4]
for l in open('/verif/properties.jsonl'):
    d=json.loads(l)
    if d['id']==id:
        json.dump(d,open('%s/out/%s/PROPERTY.json'%(root,id),'w'),indent=1)
src='/verif/seeded' if kind=='seed' else '/verif/neutral'
name='ALREADY_TRIED.txt' if kind=='seed' else 'ALREADY_DONE.txt'
out=[]
for m in sorted(glob.glob('%s/%s-*/meta.json'%(src,id))):
    try: d=json.load(open(m))
    except Exception: continue
    out.append('- '+' '.join(str(d.get('summary','')).split())[:600])
open('%s/out/%s/%s'%(root,id,name),'w').write('\n'.join(out)+'\n')
PY
done
sed "s#@ROOT@#$root#g" /verif/tools/prompts/$kind.txt > $root/PROMPT.txt
ls $root | head -30
