#!/bin/bash
# verify_seeded.sh <ID>: for every $SEEDROOT/out/<ID>/m*/ confirm (in the scratch worktree $SEEDROOT/<ID>):
#  suite passes with the patch and no demo; demo fails with the patch; demo passes without.
export GOFLAGS=-mod=mod GOPROXY=off GOSUMDB=off GOTOOLCHAIN=local; unset GOWORK
R=${SEEDROOT:-/tmp/seed}; ID=$1; W=$R/$ID; OUT=$R/out/$ID
for M in $OUT/m*; do
  [ -f $M/patch.diff ] || continue
  git -C $W checkout -q -- . && git -C $W clean -fdq
  pkg=$(python3 -c "import json;print(json.load(open('$M/meta.json')).get('demo_pkg_dir',''))")
  res="$ID/$(basename $M) pkg=$pkg"
  if ! git -C $W apply $M/patch.diff 2>/dev/null; then echo "$res APPLY-FAIL"; continue; fi
  if (cd $W && go build ./... && go test -vet=off -count=1 ./... ) >$OUT/$(basename $M).suite.log 2>&1; then s1=suite-pass; else s1=SUITE-FAIL; fi
  demo=$(ls $M/*_test.go 2>/dev/null | head -1)
  if [ -z "$demo" ] || [ -z "$pkg" ]; then echo "$res $s1 NO-DEMO-TEST"; continue; fi
  race=""; grep -q -- "-race" $M/meta.json && race="-race"
  cp $demo $W/$pkg/zz_seeded_demo_test.go
  if (cd $W && go test $race -vet=off -count=1 -run TestSeeded ./$pkg/ ) >$OUT/$(basename $M).demo_mut.log 2>&1; then s2=DEMO-PASSES-WITH-MUTATION; else s2=demo-fails-with-mutation; fi
  git -C $W checkout -q -- .
  if (cd $W && go test $race -vet=off -count=1 -run TestSeeded ./$pkg/ ) >$OUT/$(basename $M).demo_clean.log 2>&1; then s3=demo-passes-clean; else s3=DEMO-FAILS-CLEAN; fi
  rm -f $W/$pkg/zz_seeded_demo_test.go
  echo "$res $s1 $s2 $s3"
done
git -C $W checkout -q -- . && git -C $W clean -fdq
