#!/bin/bash
# show.sh <dir-with-patch.diff> <property>: apply the patch to a scratch copy and print the check's non-ok lines (truncated)
V=/verif; d=$1; q=$2; w=${3:-400}
S=$(mktemp -d /tmp/show.XXXXXX); rsync -a --exclude .git /repo/ $S/
(cd $S && patch -p1 -s --no-backup-if-mismatch < $V/$d/patch.diff) || echo "NOAPPLY"
PERFCHECK_REPO=$S PERFCHECK_VERIF=$S/.verif $V/run check $q 2>&1 | grep -v "^ok" | cut -c1-$w
rm -rf $S
