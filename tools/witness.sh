#!/bin/bash
# witness.sh PROP [--json FILE]: for each stored witness edit of PROP (witness/PROP.tsv: name, expected rule or
# "silent", then file/perl-expression pairs) apply it to a scratch copy of /repo's current working tree, make sure it
# still builds, run PROP's quick check against the copy and compare with the expectation. Scratch copies are removed.
# Also runs the independently seeded mutations in seeded/PROP-*/patch.diff (expectation: some rule of PROP fires).
V=$(cd "$(dirname "$0")/.." && pwd); prop=$1; json=""; [ "$2" = "--json" ] && json=$3
REPO=${PERFCHECK_REPO:-/repo}
export GOFLAGS=-mod=mod GOPROXY=off GOSUMDB=off GOTOOLCHAIN=local; unset GOWORK
results=()
run_one() { # name expect dir [property whose check is run]
  local name=$1 expect=$2 S=$3 out rc rules verdict q=${4:-$prop}
  if ! (cd $S && go build ./... >/dev/null 2>&1); then verdict="skipped(does-not-build)"; else
    out=$(PERFCHECK_REPO=$S PERFCHECK_VERIF=$S/.verif $V/run check $q 2>&1); rc=$?
    rules=$(echo "$out" | grep -E '^  rule=' | sed -E 's/^  rule=([^ ]+).*/\1/' | sort -u | tr '\n' ' ')
    if [ "$expect" = "silent" ]; then
      if [ $rc -eq 0 ]; then verdict="ok(silent)"; else verdict="FALSE-ALARM($rules rc=$rc)"; fi
    elif [ "$expect" = "unreached" ]; then
      if [ $rc -eq 0 ]; then verdict="documented-miss(out of static reach, see DESIGN.md)"; else verdict="ok(now caught by $rules)"; fi
    elif [ "$expect" = "undecided" ]; then
      if [ $rc -eq 2 ]; then verdict="ok(check fails: undecided)"; elif [ $rc -eq 1 ]; then verdict="ok(now caught by $rules)"; else verdict="MISSED(rc=$rc)"; fi
    elif [ "$expect" = "any" ]; then
      if [ $rc -eq 1 ]; then verdict="ok(caught by $rules)"; else verdict="MISSED(rc=$rc)"; fi
    else
      if echo " $rules" | grep -q " $expect "; then verdict="ok(caught by $rules)"; else verdict="MISSED(expected $expect, got '$rules' rc=$rc)"; fi
    fi
  fi
  echo "$prop $name: $verdict"
  [ -n "$WITNESS_VERBOSE" ] && echo "$out" | grep -v '^ok' | sed 's/^/    | /'
  results+=("{\"name\":\"$name\",\"expect\":\"$expect\",\"verdict\":\"$verdict\"}")
}
if [ -f $V/witness/$prop.tsv ]; then
  while IFS=$'\t' read -r name expect rest; do
    [ -z "$name" ] && continue
    [ -n "$WITNESS_ONLY" ] && ! [[ "$name" =~ $WITNESS_ONLY ]] && continue
    S=$(mktemp -d /tmp/witness.XXXXXX); rsync -a --exclude .git $REPO/ $S/
    IFS=$'\t' read -r -a pairs <<< "$rest"
    changed=0
    for ((i=0; i+1<${#pairs[@]}; i+=2)); do
      if [[ "${pairs[i]}" == @* ]]; then
        # "@dir" "-": first apply the stored patch /verif/<dir>/patch.diff (a behaviour-preserving refactoring), then edit on top of it
        (cd $S && patch -p1 -s --no-backup-if-mismatch < "$V/${pairs[i]#@}/patch.diff" >/dev/null 2>&1) && changed=1
        continue
      fi
      before=$(md5sum < "$S/${pairs[i]}")
      perl -0pi -e "${pairs[i+1]}" "$S/${pairs[i]}"
      [ "$before" != "$(md5sum < "$S/${pairs[i]}")" ] && changed=1
    done
    if [ $changed -eq 0 ]; then echo "$prop $name: skipped(edit-no-longer-applies)"; results+=("{\"name\":\"$name\",\"expect\":\"$expect\",\"verdict\":\"skipped(edit-no-longer-applies)\"}"); else run_one "$name" "$expect" $S; fi
    rm -rf $S
  done < $V/witness/$prop.tsv
fi
for d in $V/seeded/$prop-*/; do
  [ -f $d/patch.diff ] || continue
  [ -n "$WITNESS_ONLY" ] && ! [[ "seeded:$(basename $d)" =~ $WITNESS_ONLY ]] && continue
  S=$(mktemp -d /tmp/witness.XXXXXX); rsync -a --exclude .git $REPO/ $S/
  if (cd $S && patch -p1 -s --no-backup-if-mismatch < $d/patch.diff >/dev/null 2>&1); then
    exp=any; [ -f $d/EXPECT ] && exp=$(cat $d/EXPECT)
    case "$exp" in
      cross:*) run_one "seeded:$(basename $d)(decided by ${exp#cross:})" any $S ${exp#cross:} ;;
      *) run_one "seeded:$(basename $d)" $exp $S ;;
    esac
  else echo "$prop seeded:$(basename $d): skipped(patch-no-longer-applies)"; results+=("{\"name\":\"seeded:$(basename $d)\",\"expect\":\"any\",\"verdict\":\"skipped(patch-no-longer-applies)\"}"); fi
  rm -rf $S
done
if [ -n "$json" ]; then (IFS=,; echo "[${results[*]}]") > "$json"; fi
