#!/bin/bash
# all.sh: the whole regression of the machinery with a frozen checker binary (sources may be edited meanwhile):
# every quick check on /repo, every witness, every seeded change (own property), every refactoring (all properties).
V=/verif; cd $V
./run build || exit 2
cp bin/perfcheck bin/perfcheck.frozen
export PERFCHECK_FROZEN_BIN=$V/bin/perfcheck.frozen
fail=0
for p in $(./run list); do ./run check $p >/dev/null 2>&1 || { echo "CHECK FAILS ON CLEAN TREE: $p"; fail=1; }; done
ls witness/*.tsv | xargs -n1 basename | sed 's/.tsv//' | xargs -P 6 -I{} tools/witness.sh {} > /tmp/all_witness.log 2>&1
echo "witness: $(grep -c 'ok(' /tmp/all_witness.log) ok, $(grep -c 'documented-miss' /tmp/all_witness.log) documented misses, $(grep -Ec 'MISSED|FALSE-ALARM|skipped' /tmp/all_witness.log) problems"
grep -E 'MISSED|FALSE-ALARM|skipped' /tmp/all_witness.log | cut -c1-200
ls -d seeded/C*-*/ | xargs -n1 basename | xargs -P 8 -I{} tools/seedtest.sh '^{}$' > /tmp/all_seed.log 2>&1
echo "seeded (own check): $(grep -c CAUGHT /tmp/all_seed.log) caught of $(grep -c . /tmp/all_seed.log)"
grep -v CAUGHT /tmp/all_seed.log | cut -c1-120
ls -d neutral/C*-*/ | xargs -n1 basename | xargs -P 8 -I{} tools/neutraltest.sh '^{}$' > /tmp/all_neutral.log 2>&1
echo "refactorings: $(grep -c ' silent' /tmp/all_neutral.log) silent of $(grep -c . /tmp/all_neutral.log)"
grep -v ' silent' /tmp/all_neutral.log | cut -c1-250
exit $fail
