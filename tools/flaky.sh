#!/bin/bash
# flaky.sh [N]: run every check against every refactoring and every seeded change (own property) N times (default 3) with a
# frozen binary; report any variant whose one-line result differs between runs.
V=/verif; cd $V
N=${1:-3}
./run build >/dev/null 2>&1 || exit 2
cp bin/perfcheck bin/perfcheck.frozen
export PERFCHECK_FROZEN_BIN=$V/bin/perfcheck.frozen
for i in $(seq 1 $N); do
  ls -d neutral/C*-*/ | xargs -n1 basename | xargs -P 10 -I{} tools/neutraltest.sh '^{}$' 2>&1 | sort > /tmp/flaky_neutral.$i.log
  ls -d seeded/C*-*/ | xargs -n1 basename | xargs -P 10 -I{} tools/seedtest.sh '^{}$' 2>&1 | sort > /tmp/flaky_seed.$i.log
done
bad=0
for i in $(seq 2 $N); do
  diff /tmp/flaky_neutral.1.log /tmp/flaky_neutral.$i.log | cut -c1-200 && true
  cmp -s /tmp/flaky_neutral.1.log /tmp/flaky_neutral.$i.log || bad=1
  diff /tmp/flaky_seed.1.log /tmp/flaky_seed.$i.log | cut -c1-200 && true
  cmp -s /tmp/flaky_seed.1.log /tmp/flaky_seed.$i.log || bad=1
done
echo "refactorings silent: $(grep -c ' silent' /tmp/flaky_neutral.1.log) of $(grep -c . /tmp/flaky_neutral.1.log); seeds caught: $(grep -c CAUGHT /tmp/flaky_seed.1.log) of $(grep -c . /tmp/flaky_seed.1.log)"
[ $bad = 0 ] && echo "stable over $N runs" || echo "UNSTABLE"
exit $bad
