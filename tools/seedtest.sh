#!/bin/bash
# seedtest.sh [pattern]: run the property's quick check against each seeded mutation applied to a scratch copy
# of /repo's HEAD working tree (never /repo itself). Prints CAUGHT / MISSED / NOAPPLY per mutation.
# With ALL=1 every claimed property's check is run (to see cross-property catches and false alarms).
V=/verif; pat=${1:-.}
for d in $V/seeded/*/; do
  id=$(basename $d); echo "$id" | grep -Eq "$pat" || continue
  prop=${id%%-*}
  S=$(mktemp -d /tmp/seedtest.XXXXXX)
  rsync -a --exclude .git /repo/ $S/
  if ! (cd $S && patch -p1 -s --no-backup-if-mismatch < $d/patch.diff >/dev/null 2>&1); then echo "$id NOAPPLY"; rm -rf $S; continue; fi
  props=$prop; [ -n "$ALL" ] && props=$($V/run list)
  line="$id"
  for q in $props; do
    out=$(PERFCHECK_REPO=$S PERFCHECK_VERIF=$S/.verif $V/run check $q 2>&1); rc=$?
    rules=$(echo "$out" | grep -E '^  rule=' | sed -E 's/^  rule=([^ ]+).*/\1/' | sort -u | tr '\n' ',')
    und=$(echo "$out" | grep -c '^UNDECIDED')
    if [ $rc -eq 1 ]; then line="$line $q:CAUGHT[$rules]"; elif [ $rc -eq 0 ]; then line="$line $q:missed"; else line="$line $q:rc=$rc(undecided=$und)"; fi
  done
  echo "$line"
  rm -rf $S
done
