#!/bin/bash
# neutraltest.sh [regex]: run EVERY property's quick check against each behaviour-preserving refactoring in
# /verif/neutral/*/patch.diff applied to a scratch copy of /repo's working tree (never /repo itself). Any non-zero
# exit is a false alarm (ALARM) to be investigated. Prints one line per refactoring; with RESULTS=1 rewrites
# neutral/RESULTS.tsv (id, kind, files, outcome).
V=/verif; pat=${1:-.}
PROPS=$($V/run list) || { echo "checker does not build" >&2; exit 2; }
[ -z "$PROPS" ] && { echo "no properties listed" >&2; exit 2; }
[ -n "$RESULTS" ] && : > $V/neutral/RESULTS.tsv.new
for d in $V/neutral/*/; do
  id=$(basename $d); echo "$id" | grep -Eq "$pat" || continue
  [ -f $d/patch.diff ] || continue
  S=$(mktemp -d /tmp/neutraltest.XXXXXX)
  rsync -a --exclude .git /repo/ $S/
  if ! (cd $S && patch -p1 -s --no-backup-if-mismatch < $d/patch.diff >/dev/null 2>&1); then echo "$id NOAPPLY"; rm -rf $S; continue; fi
  line=""; 
  for q in $PROPS; do
    out=$(PERFCHECK_REPO=$S PERFCHECK_VERIF=$S/.verif $V/run check $q 2>&1); rc=$?
    if [ $rc -ne 0 ]; then
      rules=$(echo "$out" | grep -E '^  rule=|^UNDECIDED' | sed -E 's/^  rule=([^ ]+).*/\1/; s/^UNDECIDED property=[^ ]+ rule=([^ ]+).*/\1(undecided)/' | sort -u | tr '\n' ',')
      line="$line $q:ALARM[rc=$rc $rules]"
    fi
  done
  [ -z "$line" ] && line=" silent"
  echo "$id$line"
  if [ -n "$RESULTS" ]; then
    kind=$(python3 -c "import json;print(json.load(open('$d/meta.json')).get('kind','')[:60])" 2>/dev/null)
    files=$(grep '^+++ b/' $d/patch.diff | sed 's/^+++ b\///' | tr '\n' ' ')
    printf "%s\t%s\t%s\t%s\n" "$id" "$kind" "$files" "$(echo $line)" >> $V/neutral/RESULTS.tsv.new
  fi
  rm -rf $S
done
[ -n "$RESULTS" ] && mv $V/neutral/RESULTS.tsv.new $V/neutral/RESULTS.tsv
